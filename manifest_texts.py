TEXTS = {
    "C08": {
        "level": "Generated-input search: every record type is round-tripped through every codec the system uses for it (protobuf, msgpack with the handles of gorpc/raft/dsstate, JSON, query string) and compared by the harness's own reflective comparator under the documented lossy-field normaliser; every decoder is fed random bytes and mutated valid encodings with a no-panic / re-encodable / fixpoint-when-well-formed oracle. Exploration is the right level: the value space is unbounded and the codecs are reflective third-party libraries.",
        "note": "Trusts: rapid's generators reach the interesting shapes (class counters in evidence, floors enforced); the harness comparator; well-formedness as defined in DESIGN section 3. Not covered: values outside the generated alphabets.",
        "technique": "property-based round-trip and decoder robustness testing (rapid), native go fuzzing in the thorough tier",
    },
}
TEXTS["C03"] = {
    "level": "Generated-input search over peersets, per-peer metric states, current allocations, factor pairs, user allocations, both allocators and three entry points (Cluster.Pin, the BlockAllocate RPC, PeerRemove as the exclusion path) against a validity predicate written from the statement (no duplicates, additions only from healthy non-excluded members, healthy holders kept / truncated to max, between min and max healthy holders, requested-then-best-ranked preference, failure iff too few reachable and then nothing changes, -1 gives the empty list). Exploration is the right level: the space is a product of small finite domains sampled densely (ties, boundary factors) but not enumerated.",
    "note": "Real Cluster, allocate.go, both allocators and pubsubmon from /repo; consensus, tracker, IPFS and informer are harness fakes behind the component interfaces. Metrics expire +-1 h (no near-now expiry). Trusts the harness model of 'healthy'.",
    "technique": "property-based testing with a validity-predicate oracle (rapid)",
}
PENDING = {}
