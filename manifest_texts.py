TEXTS = {
    "C08": {
        "level": "Generated-input search: every record type is round-tripped through every codec the system uses for it (protobuf, msgpack with the handles of gorpc/raft/dsstate, JSON, query string) and compared by the harness's own reflective comparator under the documented lossy-field normaliser; every decoder is fed random bytes and mutated valid encodings with a no-panic / re-encodable / fixpoint-when-well-formed oracle. Exploration is the right level: the value space is unbounded and the codecs are reflective third-party libraries.",
        "note": "Trusts: rapid's generators reach the interesting shapes (class counters in evidence, floors enforced); the harness comparator; well-formedness as defined in DESIGN section 3. Not covered: values outside the generated alphabets.",
        "technique": "property-based round-trip and decoder robustness testing (rapid), native go fuzzing in the thorough tier",
    },
}
PENDING = {}
