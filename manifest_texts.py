TEXTS = {
    "C08": {
        "level": "Generated-input search: every record type is round-tripped through every codec the system uses for it (protobuf, msgpack with the handles of gorpc/raft/dsstate, JSON, query string) and compared by the harness's own reflective comparator under the documented lossy-field normaliser; every decoder is fed random bytes and mutated valid encodings with a no-panic / re-encodable / fixpoint-when-well-formed oracle. Exploration is the right level: the value space is unbounded and the codecs are reflective third-party libraries.",
        "note": "Trusts: rapid's generators reach the interesting shapes (class counters in evidence, floors enforced); the harness comparator; well-formedness as defined in DESIGN section 3. Not covered: values outside the generated alphabets.",
        "technique": "property-based round-trip and decoder robustness testing (rapid), native go fuzzing in the thorough tier",
    },
}
TEXTS["C03"] = {
    "level": "Generated-input search over peersets, per-peer metric states, current allocations, factor pairs, user allocations, both allocators and three entry points (Cluster.Pin, the BlockAllocate RPC, PeerRemove as the exclusion path) against a validity predicate written from the statement (no duplicates, additions only from healthy non-excluded members, healthy holders kept / truncated to max, between min and max healthy holders, requested-then-best-ranked preference, failure iff too few reachable and then nothing changes, -1 gives the empty list). Exploration is the right level: the space is a product of small finite domains sampled densely (ties, boundary factors) but not enumerated.",
    "note": "Real Cluster, allocate.go, both allocators and pubsubmon from /repo; consensus, tracker, IPFS and informer are harness fakes behind the component interfaces. Metrics expire +-1 h (no near-now expiry). Trusts the harness model of 'healthy'.",
    "technique": "property-based testing with a validity-predicate oracle (rapid)",
}
TEXTS["C04"] = {
    "level": "Model-based stateful testing: generated histories of Pin/PinPath/PinUpdate/Unpin/UnpinPath and Cluster.Pin RPC calls (all option deltas, every pin type, sharded installs, follower and default-factor flips) run against a real Cluster; after every step the pinset, the returned value or error and the LogPin/LogUnpin calls reaching consensus are compared with a reference model written from the statement. Exploration level: histories are sampled, the CID universe is small so collisions are the common case.",
    "note": "Real cluster.go/api code from /repo; consensus is a harness fake over a real dsstate, monitor is the real pubsubmon with all members healthy. Trusts the reference model (oracle decisions listed in the evidence assumptions and DESIGN section 7).",
    "technique": "model-based stateful property testing (rapid state machine) against a reference pinset model",
}
TEXTS["C10"] = {
    "level": "Generated-input search over peersets of 1-8 real Cluster instances, failing peer, survivor health, per-instance re-pinning/follower settings and pinsets; a ping alert is delivered to every survivor from the same initial pinset (then PeerRemove, then the StateSync expiry sweep) and the LogPin/LogUnpin calls and resulting pins of each instance are judged against the statement: under-replicated pins re-homed by exactly one survivor to healthy peers other than the failed one with options preserved, everything else untouched, nothing removed; expired pins unpinned by exactly one member. Exploration level.",
    "note": "Real alertsHandler/vacatePeer/repinFromPeer/distanceChecker/StateSync/allocate from /repo; consensus state, monitor and tracker are harness fakes. Completion of alert handling is observed through a sentinel alert in Cluster.Alerts().",
    "technique": "property-based testing with fault injection (peer failure/removal) and an invariant oracle over the per-peer operation logs (rapid)",
}
TEXTS["C09"] = {
    "level": "Model-based stateful testing of metrics.Store + Checker (arrival sequences with expired/invalid/renewed metrics, window wrap, peerset-restricted and global failure checks, alert channel drained after every check) against a model of 'latest metric per (name, peer)' and 'alerted since renewal'; a second leg drives the real pubsubmon.Monitor with changing peersets; a third observes the real Cluster publish loops through a recording monitor and checks that every metric is republished before the previous one expires. Exploration level; the cadence leg is timing based and therefore small and triple-checked.",
    "note": "Real monitor/metrics, pubsubmon and cluster.go publish loops from /repo. Time policy: +-1 h expiry in the model legs; the cadence leg uses wall-clock margins of at least 400 ms and requires 3 consecutive reproductions.",
    "technique": "model-based stateful property testing (rapid state machine) plus a timing-margin cadence observation",
}
TEXTS["C05"] = {
    "level": "Stateful schedule exploration: generated scripts of track/untrack/recover instructions interleaved with harness-owned completion of the parked IPFS pin/unpin calls (order and outcome are part of the generated value) run on the real stateless tracker and operation tracker; at quiescence the model daemon's pin table is compared per CID with the last instruction (or an error status must be shown), and again strictly after a recover round with a healthy daemon. Exploration level: the environment's order is owned by the harness, interleavings inside the tracker are left to the Go scheduler.",
    "note": "Real pintracker/stateless and optracker from /repo; the IPFS daemon is a model behind the IPFSConnector RPC service, the shared pinset a real dsstate. Trusts the model daemon's pin semantics (DESIGN C05).",
    "technique": "model-based stateful property testing with harness-controlled completion order and fault injection (rapid state machine)",
}
TEXTS["C06"] = {
    "level": "Generated-input search: pinsets, daemon pin tables and last-operation outcomes (produced by really running operations against a scripted daemon) are constructed directly on a real stateless tracker; for every CID the per-CID status, the listing entry and the facts must agree at class level, and for generated filters (single, composite, unions) the filtered listing must equal the unfiltered one restricted to the filter. A second leg judges the cluster-wide view of real Cluster instances over generated member sets. Exploration level.",
    "note": "Real Status/StatusAll/localStatus/TrackerStatus.Match and globalPinInfo code from /repo; the daemon is the model behind the IPFSConnector RPC service. Oracle decisions (class-level agreement, mode-mismatch entries) are listed in the evidence assumptions.",
    "technique": "property-based testing with a truth-table oracle and a metamorphic filter law (rapid)",
}
TEXTS["C14"] = {
    "level": "Generated-input round-trips over pinsets of all well-formed pins: State.Marshal/Unmarshal; export of pinset A imported over a manager holding pinset B through the real cmdutils state managers (Raft with file snapshots, CRDT over real badger and leveldb); SnapshotSave then OfflineState/LastStateRaw; a model-based state machine over CleanupRaft with generated retention and pre-existing backup folders; peerstore save/load/import with priorities, and peerstore files with malformed lines. Exploration level.",
    "note": "Real cmdutils, dsstate, consensus/raft snapshot helpers, pstoremgr from /repo, on temp directories. Starting a live peer on a saved snapshot is covered under C01's harness.",
    "technique": "property-based round-trip testing and a model-based state machine for backup rotation (rapid)",
}
TEXTS["C15"] = {
    "level": "Generated-input search over all 14 component sections: 1-6 settings of a hand-written field specification are set to generated values (valid, boundary, zero, negative, wrong type, unparsable) in the section's default JSON, alone, through environment variables, or inside a full configuration file handled by config.Manager; oracle: no panic, default validates, accepted => validates, accepted non-zero well-formed values are shown by ToJSON, save/load/save fixpoint, display forms never contain the generated secret, private key or credentials. Exploration level.",
    "note": "Real config code of every component from /repo. The field specification is the trusted independent oracle for 'no setting silently dropped'.",
    "technique": "property-based testing against a field specification with round-trip/fixpoint oracles (rapid)",
}
TEXTS["C16"] = {
    "level": "Generated-input search with fault injection: pins (recursive, direct, with depth, origins, update source), prior daemon pin states and a behaviour per daemon endpoint (success, IPFS error body, non-JSON error, dropped connection, stalls, progress then drop / trailer error / slow progress, caller cancellation) are run through the real connector against a scripted go-ipfs fake; oracle: success only if the fake's pin table holds / does not hold the CID in the asked mode, no mutating request when already pinned as asked, unpin of an absent CID succeeds, pin/update only from a recursively pinned source and with unpin=false, a stalled pin fails within a bound, no fault => success. Exploration level.",
    "note": "Real ipfsconn/ipfshttp from /repo over real HTTP on loopback; trusts the fake daemon's fidelity to go-ipfs (status codes, message strings, trailers).",
    "technique": "property-based testing with fault injection against a scripted fake daemon (rapid)",
}
TEXTS["C12"] = {
    "level": "Generated-input search over HTTP requests to the real IPFS proxy: hijacked routes in both argument styles, all methods, valid/invalid paths and every option, with the cluster answering success or error; and non-hijacked requests (other methods, near-miss paths, arbitrary queries and bodies). Oracles: exactly the expected cluster call(s) with the requested path and options; no cluster write when the proxy answers with an error; hijacked requests never relayed; non-hijacked requests arrive at a recording fake daemon byte-identical and its answer comes back. Exploration level.",
    "note": "Real api/ipfsproxy and adderutils from /repo over real HTTP; cluster/consensus/connector RPC services are recording fakes, the daemon is an httptest server.",
    "technique": "property-based differential testing of a proxy against recording fakes on both sides (rapid)",
}
TEXTS["C11"] = {
    "level": "Generated-input search over raw HTTP requests (every route and method, valid/invalid CIDs, paths, peer IDs, bodies, each pin option valid or invalid, unknown paths and wrong methods, four credential states on servers with and without configured credentials) and over every method of the bundled client with generated arguments; a recording RPC layer behind the real REST API shows exactly which cluster operation ran with which decoded argument. Oracles: 401 and nothing executed without valid credentials; 4xx and nothing executed for any malformed element; otherwise exactly the named operation with the CID/path/options sent; single JSON document bodies; the client delivers its arguments and returns the server's answer or error. Exploration level.",
    "note": "Real api/rest, api/rest/client and api types from /repo over real HTTP on loopback; the cluster behind the API is a recording fake.",
    "technique": "property-based differential testing of an API layer against a recording back end (rapid)",
}
TEXTS["C13"] = {
    "level": "Generated-input search with fault injection: file trees around chunk and shard boundaries, all chunkers/layouts/raw-leaves/CID versions/hash functions/wrap, replication settings, 1-3 real libp2p destination hosts with a recording BlockPut (or local), sharding with 1-6 shards and an indirect-shard class, block-put failures at block k of a destination, pin failures; oracles: delivered blocks closed under links from the returned root, every file byte-identical through DagReader over delivered blocks only, root = root of an independent reference importer (so sharded = unsharded), the pin log exactly as stated (root with options and the BlockAllocate allocations; meta + cluster-DAG + shard entries whose links partition the content, sizes under the limit, depth covering the links), and no root/meta pin on failure. A second leg goes client library -> multipart -> REST /add -> adder for the hidden flag. Exploration level.",
    "note": "Real adder, ipfsadd, single and sharding DAG services, adderutils, REST /add and client from /repo; Cluster.BlockAllocate/Pin and IPFSConnector.BlockPut are recording RPC services on real loopback hosts.",
    "technique": "property-based differential testing against a reference importer, with fault injection (rapid)",
}
TEXTS["C07"] = {
    "level": "Per generated trust configuration and Trust/Distrust history, the full endpoint x remote-caller matrix (every method of the five RPC services, found by reflection) is evaluated over real libp2p connections against a real Cluster with real Raft or CRDT consensus: an allowed call must be justified by a frozen OPEN/TRUSTED/LOCAL table and the model's trust state. The finite matrix is exhaustive per step; configurations and histories are sampled. A second leg runs three real CRDT replicas and checks that updates signed by an untrusted peer are ignored until it is trusted, with a trusted peer's marker as liveness witness. Exploration level.",
    "note": "Real newRPCServer/DefaultRPCPolicy/authorisation function, crdt and raft IsTrustedPeer/Trust/Distrust and the pubsub topic validator from /repo. The frozen table is the harness's reading of the statement and of rpc_policy.go's comments.",
    "technique": "exhaustive endpoint x caller matrix per generated trust history (rapid), oracle = frozen permission table",
}
TEXTS["C02"] = {
    "level": "Model-based stateful testing of a real CRDT replica's batching (all batching settings, bursts, pauses, injected commit failures; oracle = committed state plus a prefix of the accepted operations, full application after the trigger, sentinel liveness, tracker's last event per CID) and schedule exploration of 2-3 real replicas under harness-owned partitions (oracle = equal pinsets once every marker is visible everywhere and listings are stable, tracker hand-off). Exploration level; convergence is observed with generous bounds and a liveness witness.",
    "note": "Real consensus/crdt, dsstate, go-ds-crdt, ipfs-lite and gossipsub on loopback hosts. Message-level delivery order inside gossipsub/bitswap is left to the scheduler.",
    "technique": "model-based stateful property testing with fault injection and partition schedules (rapid state machine)",
}
TEXTS["C01"] = {
    "level": "Model-based stateful testing of 1-3 real Raft peers with snapshotting and log truncation forced into short histories (threshold 2-5, trailing logs 0-2): pins of every type and option submitted at leaders and followers, unpins, restarts, stop/start of a follower while the others commit and snapshot (catch-up by snapshot install over non-empty state), offline reads; the model is the acknowledged sequence; the time-free invariant 'every live member's pinset is a prefix state' is evaluated after every step, plus leader visibility, caught-up equality with a generous bound, OfflineState equality and tracker hand-off by content. A second leg runs a single-member peer in a child process, kills it with SIGKILL at generated points (after an acknowledgement, a drawn number of microseconds into an in-flight operation, after the snapshot timer) and requires the restarted peer to list the acknowledged sequence (plus, optionally, the in-flight operation). Exploration level.",
    "note": "Real consensus/raft, dsstate, go-libp2p-raft FSM and hashicorp raft from /repo and the module cache, on loopback hosts and temp dirs. Schedules inside raft are explored by repetition only.",
    "technique": "model-based stateful property testing with restart/stop and kill -9 fault injection (rapid state machine), oracle = prefix-of-committed-sequence model",
}
TEXTS["C17"] = {
    "level": "Model-based stateful testing of up to 4 full Cluster instances with real Raft consensus: generated sequences of PeerAdd (fresh staging peer), Join, PeerRemove (issued at leader or follower, against leader, follower or the caller itself), no-op adds/removes, removal of the last peer, interleaved with pins and unpins, re-pinning on or off; after each step every running member must report the model's peerset and pinset (bounded polling), a new peer must list exactly the model pinset when it reports ready, a removed peer must shut itself down and clean its Raft data, and with re-pinning on no pin may stay allocated only to the removed peer. Exploration level: few, expensive histories.",
    "note": "Real cluster.go PeerAdd/PeerRemove/Join/watchPeers/Shutdown and consensus/raft from /repo on loopback hosts and temp dirs.",
    "technique": "model-based stateful property testing of membership histories (rapid state machine)",
}
TEXTS["C18"] = {
    "level": "Randomised concurrency testing under the Go race detector: generated operation mixes (2-6 goroutines, drawn operation lists over a tiny CID/peer universe, drawn GOMAXPROCS, each mix repeated) on the stateless tracker, the bare operation tracker, the metrics store+checker, a bare metrics window, the Cluster facade reading Alerts() while >1000 alerts arrive and pins happen, and shutdown-while-in-use of informers, CRDT batching, Cluster and tracker; oracle: no race report, no panic, all callers return within a watchdog, structural checks on returned lists. Schedules are sampled, not enumerated.",
    "note": "Real components from /repo built with -race; the Cluster is wired to harness fakes.",
    "technique": "property-based generation of concurrent operation mixes under the race detector with structural result oracles (rapid)",
}
PENDING = {}
