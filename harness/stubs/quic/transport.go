// Package libp2pquic is a stub replacing go-libp2p-quic-transport in the
// verification harness: quic-go v0.21.1 refuses to build with Go >= 1.18.
// ipfs-cluster only references NewTransport (commented out for the cluster
// host, listed as one option for the REST libp2p endpoint).
package libp2pquic

import (
	"errors"

	"github.com/libp2p/go-libp2p-core/connmgr"
	ic "github.com/libp2p/go-libp2p-core/crypto"
	"github.com/libp2p/go-libp2p-core/pnet"
	tpt "github.com/libp2p/go-libp2p-core/transport"
)

// NewTransport always fails: QUIC is unavailable in the harness.
func NewTransport(key ic.PrivKey, psk pnet.PSK, gater connmgr.ConnectionGater) (tpt.Transport, error) {
	return nil, errors.New("quic transport stubbed out in verification harness")
}
