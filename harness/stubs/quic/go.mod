module github.com/libp2p/go-libp2p-quic-transport

go 1.16

require github.com/libp2p/go-libp2p-core v0.8.5
