// Package c03: allocations honour the replication factors and use only
// healthy peers.
package c03

import (
	"context"
	"fmt"
	"os"
	"sort"
	"strconv"
	"strings"
	"sync/atomic"
	"testing"
	"time"

	"verifharness/internal/ev"
	"verifharness/internal/fakes"
	"verifharness/internal/gen"

	ipfscluster "github.com/ipfs/ipfs-cluster"
	"github.com/ipfs/ipfs-cluster/api"
	peer "github.com/libp2p/go-libp2p-core/peer"
	"pgregory.net/rapid"
)

var fixtures = map[string]*fakes.ClusterFixture{}

func TestMain(m *testing.M) {
	for _, a := range []string{"ascend", "descend"} {
		fixtures[a] = fakes.NewCluster(fakes.ClusterOpts{RealMonitor: true, Allocator: a, Mutate: func(cfg *ipfscluster.Config) {
			cfg.DisableRepinning = false
		}})
	}
	code := m.Run()
	ev.Flush()
	os.Exit(code)
}

var caseCounter int64

const (
	mAbsent = iota
	mValid
	mExpired
	mInvalid
	mNonNumeric
	mValidThenExpired // latest wins: unhealthy
	mExpiredThenValid // latest wins: healthy
)

type peerState struct {
	kind  int
	value uint64
}

func (s peerState) healthy() bool {
	return s.kind == mValid || s.kind == mNonNumeric || s.kind == mExpiredThenValid
}
func (s peerState) numeric() bool { return s.kind == mValid || s.kind == mExpiredThenValid }

var kindNames = []string{"absent", "valid", "expired", "invalid", "nonnumeric", "valid>expired", "expired>valid"}

type tcase struct {
	alloc     string
	peerset   []peer.ID
	states    map[peer.ID]peerState
	pingOK    map[peer.ID]bool
	cur       []peer.ID // nil = no current pin
	hasCur    bool
	curMin    int
	curMax    int
	onlyMin   bool // the request differs from the stored pin in the minimum only
	reqMin    int
	reqMax    int
	defMin    int
	defMax    int
	prio      []peer.ID
	entry     string // pin | blockallocate | peerremove
	removed   peer.ID
	universeN int
}

func idx(p peer.ID) int {
	for i, q := range gen.Peers {
		if q == p {
			return i
		}
	}
	return -1
}

func plist(ps []peer.ID) string {
	var s []string
	for _, p := range ps {
		s = append(s, fmt.Sprintf("P%d", idx(p)))
	}
	return "[" + strings.Join(s, ",") + "]"
}

func (c *tcase) String() string {
	var st []string
	for i, p := range gen.Peers[:c.universeN] {
		s := c.states[p]
		if s.kind == mAbsent {
			continue
		}
		st = append(st, fmt.Sprintf("P%d=%s:%d", i, kindNames[s.kind], s.value))
	}
	cur := "none"
	if c.hasCur {
		cur = fmt.Sprintf("%s(%d/%d)", plist(c.cur), c.curMin, c.curMax)
	}
	return fmt.Sprintf("%s entry=%s peerset=%s metrics={%s} current=%s request=%d/%d defaults=%d/%d prio=%s removed=P%d",
		c.alloc, c.entry+map[bool]string{true: "(only-min)", false: ""}[c.onlyMin], plist(c.peerset), strings.Join(st, " "), cur, c.reqMin, c.reqMax, c.defMin, c.defMax, plist(c.prio), idx(c.removed))
}

func contains(l []peer.ID, p peer.ID) bool {
	for _, q := range l {
		if q == p {
			return true
		}
	}
	return false
}

func drawCase(t *rapid.T) *tcase {
	c := &tcase{states: map[peer.ID]peerState{}, pingOK: map[peer.ID]bool{}}
	c.alloc = rapid.SampledFrom([]string{"ascend", "descend"}).Draw(t, "allocator")
	c.universeN = rapid.IntRange(2, 10).Draw(t, "universe")
	u := gen.Peers[:c.universeN]
	n := rapid.IntRange(1, 8).Draw(t, "npeerset")
	perm := rapid.Permutation(u).Draw(t, "perm")
	if n > len(perm) {
		n = len(perm)
	}
	c.peerset = append([]peer.ID(nil), perm[:n]...)
	for _, p := range u {
		k := rapid.SampledFrom([]int{mValid, mValid, mValid, mValid, mAbsent, mExpired, mInvalid, mNonNumeric, mValidThenExpired, mExpiredThenValid}).Draw(t, "mkind")
		v := uint64(rapid.IntRange(0, 3).Draw(t, "mval"))
		if rapid.IntRange(0, 9).Draw(t, "huge") == 0 {
			v = ^uint64(0) - uint64(rapid.IntRange(0, 1).Draw(t, "hv"))
		}
		c.states[p] = peerState{k, v}
		c.pingOK[p] = rapid.IntRange(0, 3).Draw(t, "ping") != 0
	}
	c.hasCur = rapid.Bool().Draw(t, "hascur")
	if c.hasCur {
		c.cur = gen.PeerSubset(c.universeN, 5).Draw(t, "cur")
		f := gen.Factors(false).Draw(t, "curfactors")
		c.curMin, c.curMax = f[0], f[1]
	}
	switch rapid.IntRange(0, 9).Draw(t, "fkind") {
	case 0:
		c.reqMin, c.reqMax = -1, -1
	case 1:
		c.reqMin, c.reqMax = 0, 0
	case 2: // invalid pairs
		inv := [][2]int{{3, 2}, {-1, 2}, {2, -1}, {-2, -2}, {-2, 3}, {1, -3}, {0, -1}}
		x := rapid.SampledFrom(inv).Draw(t, "invalid")
		c.reqMin, c.reqMax = x[0], x[1]
	default:
		c.reqMin = rapid.IntRange(1, 5).Draw(t, "rmin")
		c.reqMax = rapid.IntRange(c.reqMin, 5).Draw(t, "rmax")
	}
	d := gen.Factors(false).Draw(t, "defaults")
	c.defMin, c.defMax = d[0], d[1]
	c.prio = gen.PeerSubset(c.universeN, 3).Draw(t, "prio")
	c.entry = rapid.SampledFrom([]string{"pin", "pin", "blockallocate", "peerremove"}).Draw(t, "entry")
	if c.entry == "peerremove" {
		if !c.hasCur || len(c.cur) == 0 {
			c.entry = "pin"
		} else {
			c.removed = rapid.SampledFrom(c.cur).Draw(t, "removed")
			c.reqMin, c.reqMax = c.curMin, c.curMax
			c.prio = nil
		}
	}
	// one "pin" case in five re-pins the current entry changing nothing but
	// the minimum (same name, same maximum, no preferred peers): the change
	// must still reach the allocator
	if c.entry == "pin" && c.hasCur && c.curMax >= 2 && rapid.IntRange(0, 4).Draw(t, "onlyMin") == 0 {
		m := rapid.IntRange(1, c.curMax).Draw(t, "newMin")
		if m != c.curMin {
			c.onlyMin = true
			c.reqMin, c.reqMax = m, c.curMax
			c.prio = nil
		}
	}
	return c
}

func logMetric(f *fakes.ClusterFixture, name string, p peer.ID, value string, valid bool, future bool) {
	m := &api.Metric{Name: name, Peer: p, Value: value, Valid: valid}
	if future {
		m.Expire = time.Now().Add(time.Hour).UnixNano()
	} else {
		m.Expire = time.Now().Add(-time.Hour).UnixNano()
	}
	m.ReceivedAt = time.Now().UnixNano()
	if err := f.RealMon.LogMetric(context.Background(), m); err != nil {
		panic(err)
	}
}

const rule = "case = allocator (ascend/descend) x peerset (1-8 of a 2-10 peer universe) x per-peer metric state (absent, valid numeric with ties and near-max uint64, expired, invalid, non-numeric, valid-then-expired, expired-then-valid; peers outside the peerset also get metrics) x current pin (absent or allocations over the whole universe) x requested factors (-1/-1, 0/0 with generated cluster defaults, k<=m in 1..5, invalid pairs) x user allocations x entry point (Cluster.Pin, Cluster.BlockAllocate RPC followed by the Cluster.Pin RPC with those allocations preset as the adder does, PeerRemove of a current holder = exclusion list); non-trivial = (an unhealthy peer in the peerset or a non-empty current allocation) and (more healthy candidates than wanted, or the request fails); distinct by canonical rendering of the case"

func TestAllocations(t *testing.T) {
	leg := ev.L("allocations", rule)
	ctx := context.Background()
	rapid.Check(t, func(t *rapid.T) {
		c := drawCase(t)
		f := fixtures[c.alloc]
		name := fmt.Sprintf("m%d", atomic.AddInt64(&caseCounter, 1))
		f.Inf.SetName(name)
		f.S.Reset()
		f.S.SetPeers(c.peerset)
		f.Cfg.ReplicationFactorMin, f.Cfg.ReplicationFactorMax = c.defMin, c.defMax
		for _, p := range gen.Peers[:c.universeN] {
			s := c.states[p]
			val := strconv.FormatUint(s.value, 10)
			switch s.kind {
			case mValid:
				logMetric(f, name, p, val, true, true)
			case mExpired:
				logMetric(f, name, p, val, true, false)
			case mInvalid:
				logMetric(f, name, p, val, false, true)
			case mNonNumeric:
				logMetric(f, name, p, "12x", true, true)
			case mValidThenExpired:
				logMetric(f, name, p, val, true, true)
				logMetric(f, name, p, val, true, false)
			case mExpiredThenValid:
				logMetric(f, name, p, val, true, false)
				logMetric(f, name, p, val, true, true)
			}
		}
		for _, p := range gen.Peers {
			logMetric(f, "ping", p, "", true, c.pingOK[p] && idx(p) < c.universeN)
		}
		ci := gen.Cids[0]
		if c.hasCur {
			cur := api.PinCid(ci)
			cur.Name = "current"
			if c.onlyMin {
				cur.Name = "request"
			}
			cur.Allocations = c.cur
			cur.ReplicationFactorMin, cur.ReplicationFactorMax = c.curMin, c.curMax
			f.S.Put(cur)
		}
		before := pinsStr(f)

		// model
		inSet := map[peer.ID]bool{}
		for _, p := range c.peerset {
			inSet[p] = true
		}
		H := map[peer.ID]bool{}  // healthy and not excluded
		Hn := map[peer.ID]bool{} // ... and numeric
		for _, p := range gen.Peers[:c.universeN] {
			s := c.states[p]
			if inSet[p] && s.healthy() && p != c.removed {
				H[p] = true
				if s.numeric() {
					Hn[p] = true
				}
			}
		}
		min, max := c.reqMin, c.reqMax
		if min == 0 {
			min = c.defMin
		}
		if max == 0 {
			max = c.defMax
		}
		validFactors := min != 0 && max != 0 && min <= max && min >= -1 && max >= -1 && !((min == -1) != (max == -1))

		// run
		var result []peer.ID
		var err error
		switch c.entry {
		case "pin":
			var got *api.Pin
			got, err = f.C.Pin(ctx, ci, api.PinOptions{ReplicationFactorMin: c.reqMin, ReplicationFactorMax: c.reqMax, Name: "request", UserAllocations: c.prio})
			if err == nil {
				result = got.Allocations
				stored, gerr := f.C.PinGet(ctx, ci)
				if gerr != nil {
					t.Fatalf("Pin succeeded but PinGet fails: %v\ncase: %s", gerr, c)
				}
				if plist(sorted(stored.Allocations)) != plist(sorted(result)) {
					t.Fatalf("returned allocations %s differ from stored %s\ncase: %s", plist(result), plist(stored.Allocations), c)
				}
			}
		case "blockallocate":
			in := api.PinWithOpts(ci, api.PinOptions{ReplicationFactorMin: c.reqMin, ReplicationFactorMax: c.reqMax, Name: "request", UserAllocations: c.prio})
			var out []peer.ID
			err = f.API.RPC().CallContext(ctx, "", "Cluster", "BlockAllocate", in, &out)
			result = out
			if after := pinsStr(f); after != before {
				t.Fatalf("BlockAllocate changed the pinset\ncase: %s", c)
			}
		case "peerremove":
			err = f.C.PeerRemove(ctx, c.removed)
			if err != nil {
				t.Fatalf("PeerRemove: %v", err)
			}
			stored, gerr := f.C.PinGet(ctx, ci)
			if gerr != nil {
				t.Fatalf("pin disappeared during PeerRemove: %v\ncase: %s", gerr, c)
			}
			result = stored.Allocations
			if pinsStr(f) == before {
				err = fmt.Errorf("unchanged") // allocation failed (logged by the cluster) or nothing to do
			}
		}

		cur := c.cur
		curH := []peer.ID{}
		for _, p := range cur {
			if H[p] {
				curH = append(curH, p)
			}
		}
		candH, candHn := 0, 0
		for p := range H {
			if !contains(cur, p) {
				candH++
				if Hn[p] {
					candHn++
				}
			}
		}
		unhealthyInSet := false
		for _, p := range c.peerset {
			if !c.states[p].healthy() {
				unhealthyInSet = true
			}
		}
		classes := []string{"entry:" + c.entry, "alloc:" + c.alloc}
		if c.onlyMin {
			classes = append(classes, "only-min-changed")
		}
		failed := err != nil
		nontrivial := false

		switch {
		case !validFactors:
			classes = append(classes, "invalid-factors")
			if c.entry != "peerremove" && err == nil {
				t.Fatalf("invalid replication factors %d/%d accepted\ncase: %s", min, max, c)
			}
			if after := pinsStr(f); c.entry != "peerremove" && after != before {
				t.Fatalf("refused request changed the pinset\ncase: %s", c)
			}
		case min == -1:
			classes = append(classes, "everywhere")
			if c.entry == "peerremove" {
				break
			}
			if err != nil {
				t.Fatalf("replication -1 failed: %v\ncase: %s", err, c)
			}
			if c.entry == "blockallocate" {
				want := []peer.ID{}
				for _, p := range c.peerset {
					if c.pingOK[p] {
						want = append(want, p)
					}
				}
				if plist(sorted(result)) != plist(sorted(want)) {
					t.Fatalf("BlockAllocate(-1) = %s, members with a valid ping = %s\ncase: %s", plist(sorted(result)), plist(sorted(want)), c)
				}
			} else if len(result) != 0 {
				t.Fatalf("replication -1 must give an empty allocation list, got %s\ncase: %s", plist(result), c)
			}
		default:
			reachH := len(curH) + candH
			reachHn := len(curH) + candHn
			if c.entry == "peerremove" {
				// the repin only happens through pin(): failure = pin unchanged
				if failed {
					// unchanged is right when nothing is needed (still >= min) or when it cannot be satisfied
					if len(curH) < min && reachHn >= min {
						t.Fatalf("PeerRemove left an under-replicated pin untouched although %d healthy holders are reachable (min %d)\ncase: %s", reachHn, min, c)
					}
					classes = append(classes, "repin-unchanged")
					nontrivial = unhealthyInSet && len(curH) < min
					break
				}
			}
			if failed {
				classes = append(classes, "failed")
				if reachHn >= min {
					t.Fatalf("request failed (%v) although %d healthy holders are reachable (min %d)\ncase: %s", err, reachHn, min, c)
				}
				if after := pinsStr(f); after != before {
					t.Fatalf("failed request changed the pinset\ncase: %s", c)
				}
				if l := f.S.TakeLog(); len(l) != 0 {
					t.Fatalf("failed request reached consensus: %d log calls\ncase: %s", len(l), c)
				}
				nontrivial = unhealthyInSet || len(cur) > 0
				break
			}
			classes = append(classes, "allocated")
			if reachH < min {
				t.Fatalf("request succeeded with %s although only %d healthy holders are reachable (min %d)\ncase: %s", plist(result), reachH, min, c)
			}
			checkResult(t, c, result, cur, curH, H, Hn, min, max)
			nontrivial = (unhealthyInSet || len(cur) > 0) && candHn > max-len(curH)
		}
		// what the adder does next: it pins through the Cluster.Pin RPC with
		// the allocations BlockAllocate gave it already set on the pin. The
		// stored entry must keep exactly those, or none when the effective
		// factors say "everywhere"
		if c.entry == "blockallocate" && err == nil && validFactors {
			in := api.PinWithOpts(ci, api.PinOptions{ReplicationFactorMin: c.reqMin, ReplicationFactorMax: c.reqMax, Name: "request", UserAllocations: c.prio})
			in.Allocations = append([]peer.ID(nil), result...)
			var out api.Pin
			if perr := f.API.RPC().CallContext(ctx, "", "Cluster", "Pin", in, &out); perr != nil {
				t.Fatalf("Cluster.Pin with the allocations BlockAllocate returned (%s) failed: %v\ncase: %s", plist(result), perr, c)
			}
			stored, gerr := f.C.PinGet(ctx, ci)
			if gerr != nil {
				t.Fatalf("pinned but PinGet fails: %v\ncase: %s", gerr, c)
			}
			if min == -1 {
				if len(stored.Allocations) != 0 {
					t.Fatalf("replication -1 (request %d/%d, defaults %d/%d) pinned after BlockAllocate must store an empty allocation list, got %s\ncase: %s", c.reqMin, c.reqMax, c.defMin, c.defMax, plist(stored.Allocations), c)
				}
				classes = append(classes, "preset-everywhere")
			} else if plist(sorted(stored.Allocations)) != plist(sorted(result)) {
				t.Fatalf("pinned with preset allocations %s but %s were stored\ncase: %s", plist(sorted(result)), plist(sorted(stored.Allocations)), c)
			}
			classes = append(classes, "preset-pin")
		}
		if len(cur) > 0 {
			classes = append(classes, "has-current")
		}
		if unhealthyInSet {
			classes = append(classes, "unhealthy-member")
		}
		leg.Case(c.String(), nontrivial, classes...)
	})
}

func sorted(ps []peer.ID) []peer.ID {
	out := append([]peer.ID(nil), ps...)
	sort.Slice(out, func(i, j int) bool { return idx(out[i]) < idx(out[j]) })
	return out
}

func pinsStr(f *fakes.ClusterFixture) string {
	var s []string
	for _, p := range f.S.Pins() {
		s = append(s, fmt.Sprintf("%s %s %d/%d %s", p.Cid, p.Name, p.ReplicationFactorMin, p.ReplicationFactorMax, plist(p.Allocations)))
	}
	return strings.Join(s, ";")
}

// checkResult is the validity predicate R1-R5 of DESIGN section 6/C03.
func checkResult(t *rapid.T, c *tcase, result, cur, curH []peer.ID, H, Hn map[peer.ID]bool, min, max int) {
	seen := map[peer.ID]bool{}
	for _, p := range result {
		if seen[p] {
			t.Fatalf("R1: %s lists a peer twice\ncase: %s", plist(result), c)
		}
		seen[p] = true
	}
	var added []peer.ID
	for _, p := range result {
		if !contains(cur, p) {
			added = append(added, p)
			if !H[p] {
				t.Fatalf("R2: added peer P%d has no valid unexpired metric, is not a member or is excluded; result %s\ncase: %s", idx(p), plist(result), c)
			}
		}
	}
	if len(curH) <= max {
		for _, p := range curH {
			if !seen[p] {
				t.Fatalf("R3: healthy current holder P%d was dropped although only %d <= max %d are healthy; result %s\ncase: %s", idx(p), len(curH), max, plist(result), c)
			}
		}
	} else {
		if len(result) != max {
			t.Fatalf("R3: %d healthy current holders > max %d, result must have exactly max entries, got %s\ncase: %s", len(curH), max, plist(result), c)
		}
		for _, p := range result {
			if !contains(curH, p) {
				t.Fatalf("R3: with more than max healthy holders the result must only keep some of them; P%d is not one; result %s\ncase: %s", idx(p), plist(result), c)
			}
		}
	}
	nh := 0
	for _, p := range result {
		if H[p] {
			nh++
		}
	}
	if nh < min || nh > max {
		t.Fatalf("R4: result %s has %d healthy holders, want between %d and %d\ncase: %s", plist(result), nh, min, max, c)
	}
	// R5 preference among the added peers
	better := func(a, b peer.ID) bool { // a strictly better than b for the strategy
		va, vb := c.states[a].value, c.states[b].value
		if c.alloc == "ascend" {
			return va < vb
		}
		return va > vb
	}
	isPrio := func(p peer.ID) bool { return contains(c.prio, p) }
	for p := range Hn {
		if seen[p] || contains(cur, p) {
			continue
		}
		// p is a healthy numeric candidate that was left out
		for _, a := range added {
			if isPrio(p) && !isPrio(a) {
				t.Fatalf("R5: requested peer P%d (healthy) left out while non-requested P%d was added; result %s\ncase: %s", idx(p), idx(a), plist(result), c)
			}
			if isPrio(p) == isPrio(a) && better(p, a) {
				t.Fatalf("R5: P%d ranks strictly better than added P%d for %s and was left out; result %s\ncase: %s", idx(p), idx(a), c.alloc, plist(result), c)
			}
		}
	}
}
