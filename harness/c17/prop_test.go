// Package c17: Raft membership changes are agreed by all members and never
// lose the pinset.
package c17

import (
	"context"
	"fmt"
	"io/ioutil"
	"os"
	"path/filepath"
	"sort"
	"strings"
	"sync"
	"testing"
	"time"

	"verifharness/internal/cmpx"
	"verifharness/internal/ev"
	"verifharness/internal/fakes"
	"verifharness/internal/gen"

	cid "github.com/ipfs/go-cid"
	ds "github.com/ipfs/go-datastore"
	dssync "github.com/ipfs/go-datastore/sync"
	ipfscluster "github.com/ipfs/ipfs-cluster"
	"github.com/ipfs/ipfs-cluster/api"
	"github.com/ipfs/ipfs-cluster/consensus/raft"
	libp2p "github.com/libp2p/go-libp2p"
	peer "github.com/libp2p/go-libp2p-core/peer"
	peerstore "github.com/libp2p/go-libp2p-core/peerstore"
	ma "github.com/multiformats/go-multiaddr"
	mh "github.com/multiformats/go-multihash"
	"pgregory.net/rapid"
)

var workdir string

func TestMain(m *testing.M) {
	var err error
	workdir, err = ioutil.TempDir(os.Getenv("VERIF_WORKDIR"), "c17-")
	if err != nil {
		panic(err)
	}
	code := m.Run()
	os.RemoveAll(workdir)
	ev.Flush()
	os.Exit(code)
}

var ctx = context.Background()
var norm = cmpx.Norm{DropUserAllocs: true, ExpirySeconds: true, ModeFromDepth: true, SortAllocs: true}

type node struct {
	idx       int
	maxAppend int
	retries   int  // raft commit_retries
	defFolder bool // data_folder left unset: derived from the base directory
	trailing  int  // raft trailing_logs
	used      bool // was started at some point in this case
	gater     *fakes.Gater
	folder    string
	f         *fakes.ClusterFixture
	cons      *raft.Consensus
	up        bool
}

func raftCfg(folder string, defFolder bool, init []peer.ID, maxAppend, retries, trailing int) *raft.Config {
	cfg := &raft.Config{}
	cfg.Default()
	if defFolder {
		// what `ipfs-cluster-service init` writes: no data_folder, the
		// folder is <base directory>/raft
		cfg.SetBaseDir(folder)
	} else {
		cfg.DataFolder = filepath.Join(folder, "raft")
	}
	cfg.InitPeerset = init
	cfg.WaitForLeaderTimeout = 30 * time.Second
	cfg.NetworkTimeout = 5 * time.Second
	cfg.CommitRetries = retries
	cfg.CommitRetryDelay = 50 * time.Millisecond
	cfg.BackupsRotate = 2
	cfg.RaftConfig.HeartbeatTimeout = 200 * time.Millisecond
	cfg.RaftConfig.ElectionTimeout = 200 * time.Millisecond
	cfg.RaftConfig.LeaderLeaseTimeout = 150 * time.Millisecond
	cfg.RaftConfig.CommitTimeout = 10 * time.Millisecond
	cfg.RaftConfig.SnapshotThreshold = 4
	cfg.RaftConfig.SnapshotInterval = 100 * time.Millisecond
	cfg.RaftConfig.TrailingLogs = uint64(trailing)
	if maxAppend > 0 {
		// long-log cases: no snapshots, so a new peer catches up by log
		// replay in small batches
		cfg.RaftConfig.MaxAppendEntries = maxAppend
		cfg.RaftConfig.SnapshotThreshold = 1000000
		cfg.RaftConfig.SnapshotInterval = time.Hour
		cfg.RaftConfig.TrailingLogs = 1000000
	}
	return cfg
}

// start creates the Cluster (real raft consensus, harness tracker/monitor/IPFS)
// without waiting for readiness.
func (n *node) start(init []peer.ID, staging bool, repin bool, all []*node) error {
	n.used = true
	n.gater = fakes.NewGater()
	h, herr := libp2p.New(context.Background(), libp2p.Identity(gen.PeerKeys[n.idx]), libp2p.ListenAddrStrings("/ip4/127.0.0.1/tcp/0"), libp2p.ConnectionGater(n.gater))
	if herr != nil {
		return herr
	}
	for _, o := range all {
		if o != n && o.f != nil && o.up {
			h.Peerstore().AddAddrs(o.f.Host.ID(), o.f.Host.Addrs(), peerstore.PermanentAddrTTL)
			o.f.Host.Peerstore().AddAddrs(h.ID(), h.Addrs(), peerstore.PermanentAddrTTL)
		}
	}
	cons, err := raft.NewConsensus(h, raftCfg(n.folder, n.defFolder, init, n.maxAppend, n.retries, n.trailing), dssync.MutexWrap(ds.NewMapDatastore()), staging)
	if err != nil {
		h.Close()
		return err
	}
	n.cons = cons
	n.f = fakes.NewClusterNoWait(fakes.ClusterOpts{Host: h, Consensus: cons, DHT: true, Mutate: func(cfg *ipfscluster.Config) {
		cfg.PeerWatchInterval = 150 * time.Millisecond
		cfg.DisableRepinning = !repin
		cfg.ReplicationFactorMin, cfg.ReplicationFactorMax = 1, 2
		cfg.LeaveOnShutdown = false
	}})
	n.up = true
	return nil
}

func (n *node) waitReady(d time.Duration) bool {
	select {
	case <-n.f.C.Ready():
		return true
	case <-time.After(d):
		return false
	}
}

func (n *node) pins() (string, error) {
	ps, err := n.f.C.Pins(ctx)
	if err != nil {
		return "", err
	}
	var s []string
	for _, p := range ps {
		s = append(s, cmpx.PinStr(p, norm))
	}
	sort.Strings(s)
	return strings.Join(s, "\n"), nil
}

func (n *node) peers() (string, error) {
	ps, err := n.cons.Peers(ctx)
	if err != nil {
		return "", err
	}
	var s []string
	for _, p := range ps {
		s = append(s, fmt.Sprint(pidx(p)))
	}
	sort.Strings(s)
	return strings.Join(s, ","), nil
}

func pidx(p peer.ID) int {
	for i, q := range gen.Peers {
		if q == p {
			return i
		}
	}
	return -1
}

// lastFailure holds the message of the failing check of the current case, so
// that it can be reported if the clean-up wedges afterwards.
var lastFailure string

// curScript points at the script of the running case (for the watchdog).
var curScript *[]string

func (n *node) stop() {
	if n.f != nil && n.up {
		done := make(chan struct{})
		go func() { n.f.Close(); close(done) }()
		select {
		case <-done:
		case <-time.After(90 * time.Second):
			// a peer whose Shutdown never returns cannot be cleaned up; that
			// is a failure of the property itself (members stop when asked or
			// removed), reported directly because the test cannot go on
			sc := ""
			if curScript != nil {
				sc = strings.Join(*curScript, " ; ")
			}
			fmt.Printf("%s\nShutdown of peer %d did not return within 90 s\nscript: %s\n--- FAIL: TestMembership (shutdown hangs)\n", lastFailure, n.idx, sc)
			ev.Flush()
			os.Exit(1)
		}
		n.up = false
	}
}

const rule = "state machine on up to 4 full Cluster instances (real Raft consensus with data folders, set explicitly or derived from the base directory, harness tracker/monitor/IPFS) on loopback: initial cluster of 1-3 members (one case in four pre-loaded with 1200 pins and MaxAppendEntries 1-4; each peer with 0-2 older backups of Raft data on disk), then 3-6 steps of pin/unpin at any member (on one peer, on everybody, or on as many peers as there are members), PeerAdd of a fresh staging peer at any member, Join of a fresh peer through any member, PeerRemove issued at any member against any member (leader, follower, the caller itself), PeerAdd of a present peer, PeerRemove of an absent peer, removal of the last peer, removal of a peer that holds pins which can be re-homed next to pins which cannot, crash of the leader followed at once by its removal at a follower (commit_retries 0-2), an add at a leader that was just partitioned off (fails), healing and later removal of that ex-leader; re-pinning on or off; model = member set and pinset; oracle after each step (bounded polling): every running member reports the model's peerset and pinset, no-ops return nil and change nothing, the last peer cannot be removed, a new peer lists exactly the model pinset at the moment it reports ready, a removed peer shuts itself down and its Raft data folder is cleaned, and with re-pinning on no pin is left allocated only to the removed peer; non-trivial = a removal of a peer holding pins or a join/add after pins exist; distinct by script"

func TestMembership(t *testing.T) {
	leg := ev.L("membership", rule)
	caseNo := 0
	rapid.Check(t, func(t *rapid.T) {
		caseNo++
		dir := filepath.Join(workdir, fmt.Sprintf("case%d", caseNo))
		os.MkdirAll(dir, 0700)
		defer os.RemoveAll(dir)
		repin := rapid.Bool().Draw(t, "repinning")
		n0 := rapid.SampledFrom([]int{1, 2, 3, 3}).Draw(t, "initial")
		// one case in four starts with a long log (1200 pins) replicated in
		// small AppendEntries batches, so that a peer added later needs many
		// round trips to catch up
		bulk := 0
		maxAppend := 0
		if rapid.IntRange(0, 3).Draw(t, "bulk") == 0 {
			bulk = 1200
			maxAppend = rapid.SampledFrom([]int{1, 2, 4}).Draw(t, "maxAppendEntries")
		}
		retries := rapid.SampledFrom([]int{0, 1, 2, 2}).Draw(t, "commitRetries")
		// trailing_logs 1: everything but the last entry is compacted at each
		// snapshot (every 4 entries here), so a new or lagging peer is brought
		// up by snapshot installation; 64: by log replay
		trailing := rapid.SampledFrom([]int{1, 64, 64}).Draw(t, "trailingLogs")
		startWithPartition := rapid.IntRange(0, 2).Draw(t, "startWithPartition") == 0
		if startWithPartition {
			n0, trailing, bulk, maxAppend = 3, 64, 0, 0
		}
		nodes := make([]*node, 4)
		for i := range nodes {
			nodes[i] = &node{idx: i, maxAppend: maxAppend, retries: retries, folder: filepath.Join(dir, fmt.Sprintf("p%d", i))}
			nodes[i].defFolder = rapid.Bool().Draw(t, "defaultDataFolder")
			nodes[i].trailing = trailing
			// a peer may have been removed from a cluster before: 0-2 older
			// backups of its Raft data exist beside the data folder
			nb := rapid.SampledFrom([]int{0, 1, 2, 2}).Draw(t, "oldBackups")
			for b := 0; b < nb; b++ {
				d := filepath.Join(nodes[i].folder, fmt.Sprintf("raft.old.%d", b))
				os.MkdirAll(filepath.Join(d, "snapshots"), 0700)
				ioutil.WriteFile(filepath.Join(d, "raft.db"), []byte("old"), 0600)
			}
		}
		defer func() {
			for _, n := range nodes {
				n.stop()
			}
		}()
		var init []peer.ID
		for i := 0; i < n0; i++ {
			init = append(init, gen.Peers[i])
		}
		members := map[int]bool{}
		for i := 0; i < n0; i++ {
			if err := nodes[i].start(init, false, repin, nodes); err != nil {
				t.Fatalf("VERIF-INFRA start: %v", err)
			}
			members[i] = true
		}
		for i := 0; i < n0; i++ {
			if !nodes[i].waitReady(40 * time.Second) {
				t.Fatalf("VERIF-INFRA: initial member %d not ready", i)
			}
		}
		script := []string{fmt.Sprintf("initial=%d repinning=%v bulk=%d maxAppend=%d trailing=%d", n0, repin, bulk, maxAppend, trailing)}
		curScript = &script
		lastFailure = ""
		model := map[string]*api.Pin{}
		classes := map[string]bool{}
		if bulk > 0 {
			var wg sync.WaitGroup
			var mu sync.Mutex
			var bulkErr error
			for w := 0; w < 8; w++ {
				wg.Add(1)
				go func(w int) {
					defer wg.Done()
					for i := w; i < bulk; i += 8 {
						p := api.PinCid(bulkCid(i))
						p.Name = fmt.Sprintf("bulk%d", i)
						p.ReplicationFactorMin, p.ReplicationFactorMax = -1, -1
						p.MaxDepth = -1
						err := nodes[0].cons.LogPin(ctx, p)
						mu.Lock()
						if err != nil {
							bulkErr = err
						} else {
							model[p.Cid.String()] = p
						}
						mu.Unlock()
						if err != nil {
							return
						}
					}
				}(w)
			}
			wg.Wait()
			if bulkErr != nil {
				leg.Inconclusive(fmt.Sprintf("bulk pin returned an error: %v", bulkErr))
				t.Skip("bulk load not acknowledged")
			}
			classes["bulk"] = true
		}
		fail := func(format string, a ...interface{}) {
			lastFailure = fmt.Sprintf("%s\nscript: %s", fmt.Sprintf(format, a...), strings.Join(script, " ; "))
			t.Fatalf("%s", lastFailure)
		}
		modelPins := func() string {
			var s []string
			for _, p := range model {
				s = append(s, cmpx.PinStr(p, norm))
			}
			sort.Strings(s)
			return strings.Join(s, "\n")
		}
		modelPeers := func() string {
			var s []string
			for i := range members {
				s = append(s, fmt.Sprint(i))
			}
			sort.Strings(s)
			return strings.Join(s, ",")
		}
		memberList := func() []int {
			var l []int
			for i := range members {
				l = append(l, i)
			}
			sort.Ints(l)
			return l
		}
		setMetrics := func() {
			// every member is healthy for the allocator
			var ms []*api.Metric
			for i := range members {
				ms = append(ms, &api.Metric{Name: "boot", Peer: gen.Peers[i], Value: fmt.Sprint(i), Valid: true, Expire: time.Now().Add(time.Hour).UnixNano()})
			}
			for i := range members {
				nodes[i].f.Mon.Set("boot", ms)
			}
		}
		settle := func(why string) {
			setMetrics()
			deadline := time.Now().Add(60 * time.Second)
			var last string
			for {
				ok := true
				last = ""
				for _, i := range memberList() {
					ps, err := nodes[i].peers()
					pn, err2 := nodes[i].pins()
					if err != nil || err2 != nil || ps != modelPeers() || pn != modelPins() {
						ok = false
						last = fmt.Sprintf("member %d: peers [%s] (err %v), want [%s]; pinset matches: %v", i, ps, err, modelPeers(), pn == modelPins())
					}
				}
				if ok {
					return
				}
				if time.Now().After(deadline) {
					fail("%s: members did not agree on the model's peerset and pinset within 60 s: %s", why, last)
				}
				time.Sleep(50 * time.Millisecond)
			}
		}
		pick := func(t *rapid.T, label string) int {
			l := memberList()
			return l[rapid.IntRange(0, len(l)-1).Draw(t, label)]
		}
		fresh := func() int {
			for i := 0; i < 4; i++ {
				// never started in this case (it may hold older backups of Raft
				// data from an earlier life: that is part of the generated set-up)
				if !members[i] && !nodes[i].up && !nodes[i].used {
					return i
				}
			}
			return -1
		}
		addNew := func(t *rapid.T, viaJoin bool) {
			x := fresh()
			if x < 0 || len(members) >= 4 {
				t.Skip("no fresh peer")
			}
			at := pick(t, "at")
			if err := nodes[x].start(nil, true, repin, nodes); err != nil {
				fail("VERIF-INFRA start of new peer: %v", err)
			}
			setMetrics()
			var err error
			if viaJoin {
				script = append(script, fmt.Sprintf("join(%d via %d)", x, at))
				addr := nodes[at].f.Host.Addrs()[0]
				full, _ := ma.NewMultiaddr(addr.String() + "/p2p/" + peer.Encode(nodes[at].f.Host.ID()))
				err = nodes[x].f.C.Join(ctx, full)
			} else {
				script = append(script, fmt.Sprintf("peerAdd(%d at %d)", x, at))
				_, err = nodes[at].f.C.PeerAdd(ctx, gen.Peers[x])
			}
			if err != nil {
				leg.Inconclusive(fmt.Sprintf("add/join returned an error: %v", err))
				t.Skip("membership change not acknowledged")
			}
			members[x] = true
			if !nodes[x].waitReady(60 * time.Second) {
				fail("the added peer %d did not report ready within 60 s", x)
			}
			got, err := nodes[x].pins()
			if err != nil || got != modelPins() {
				fail("peer %d reported ready but does not hold the cluster's pinset (err %v)\nnew peer:\n%s\nwant:\n%s", x, err, got, modelPins())
			}
			if len(model) > 0 {
				classes["nontrivial"] = true
				classes["join-after-pins"] = true
			}
			if bulk > 0 {
				classes["join-after-bulk"] = true
			}
			settle("after adding a peer")
		}
		var removePeer func(t *rapid.T, at, x int)
		removePeer = func(t *rapid.T, at, x int) {
			script = append(script, fmt.Sprintf("peerRemove(%d at %d)", x, at))
			setMetrics()
			if len(members) == 1 {
				err := nodes[at].f.C.PeerRemove(ctx, gen.Peers[x])
				if err == nil {
					fail("the last peer was removed")
				}
				classes["remove-last"] = true
				settle("after refusing to remove the last peer")
				return
			}
			held := false
			for _, p := range model {
				for _, a := range p.Allocations {
					if a == gen.Peers[x] {
						held = true
					}
				}
			}
			if err := nodes[at].f.C.PeerRemove(ctx, gen.Peers[x]); err != nil {
				leg.Inconclusive(fmt.Sprintf("PeerRemove returned an error: %v", err))
				t.Skip("not acknowledged")
			}
			delete(members, x)
			if at == x {
				classes["remove-self"] = true
			}
			// the removed peer stops itself
			select {
			case <-nodes[x].f.C.Done():
			case <-time.After(60 * time.Second):
				fail("removed peer %d did not shut itself down within 60 s", x)
			}
			nodes[x].up = false
			nodes[x].f.Host.Close()
			if _, err := os.Stat(filepath.Join(nodes[x].folder, "raft")); err == nil {
				fail("removed peer %d still has its Raft data folder", x)
			}
			// re-pinning: refresh the model's allocations from a remaining member
			if repin {
				setMetrics()
				time.Sleep(100 * time.Millisecond)
				rem := memberList()[0]
				ps, err := nodes[rem].f.C.Pins(ctx)
				if err == nil {
					for _, p := range ps {
						if model[p.Cid.String()] != nil {
							only := len(p.Allocations) > 0
							for _, a := range p.Allocations {
								if a != gen.Peers[x] {
									only = false
								}
							}
							if only {
								fail("re-pinning is enabled but pin %s is still allocated only to the removed peer %d", p.Cid, x)
							}
							model[p.Cid.String()] = p
						}
					}
				}
			}
			if held {
				classes["nontrivial"] = true
				classes["removed-holder"] = true
			}
			settle("after removing a peer")

		}
		partitionedAdd := func(t *rapid.T) {
			// the leader is cut off and, before it notices, asked to add a
			// peer: that fails; after the partition heals everything must
			// work as before - in particular the ex-leader can later be
			// removed and stops itself
			if len(members) < 3 || len(members) >= 4 {
				t.Skip("needs three members and a spare peer")
			}
			if trailing == 1 {
				// hashicorp/raft v1.1.1 cannot bring back a follower whose log
				// ends in an entry that was never committed (the failed add)
				// once everything before it has been compacted on that
				// follower: it rejects every AppendEntries ("previous log not
				// found") and is fed snapshots for ever, so it never sees later
				// entries - its own removal included. A limitation of the
				// library under this setting, not of ipfs-cluster (DESIGN 9.3).
				t.Skip("trailing_logs=1")
			}
			x := fresh()
			if x < 0 {
				t.Skip("no fresh peer")
			}
			L := -1
			for _, i := range memberList() {
				if ld, err := nodes[i].cons.Leader(ctx); err == nil && pidx(ld) == i {
					L = i
				}
			}
			if L < 0 {
				t.Skip("no leader")
			}
			if err := nodes[x].start(nil, true, repin, nodes); err != nil {
				fail("VERIF-INFRA start of new peer: %v", err)
			}
			script = append(script, fmt.Sprintf("partition(%d) ; peerAdd(%d at %d) ; heal", L, x, L))
			classes["partitioned-leader-scenario"] = true
			for _, i := range memberList() {
				if i != L {
					nodes[L].gater.Block(nodes[i].f.Host.ID(), true)
					nodes[i].gater.Block(nodes[L].f.Host.ID(), true)
					nodes[L].f.Host.Network().ClosePeer(nodes[i].f.Host.ID())
					nodes[i].f.Host.Network().ClosePeer(nodes[L].f.Host.ID())
				}
			}
			actx, acancel := context.WithTimeout(ctx, 20*time.Second)
			_, aerr := nodes[L].f.C.PeerAdd(actx, gen.Peers[x])
			acancel()
			for _, i := range memberList() {
				if i != L {
					nodes[L].gater.Block(nodes[i].f.Host.ID(), false)
					nodes[i].gater.Block(nodes[L].f.Host.ID(), false)
				}
			}
			if aerr == nil {
				// it went through before the leader lost its lease
				members[x] = true
				if !nodes[x].waitReady(60 * time.Second) {
					fail("the added peer %d did not report ready within 60 s", x)
				}
			} else {
				// the call failed; whether the configuration change it may
				// have written before losing leadership survives is Raft's
				// business: take what the members agree on once healed
				added := false
				deadline := time.Now().Add(40 * time.Second)
				for time.Now().Before(deadline) {
					views := map[string]bool{}
					for _, i := range memberList() {
						ps, err := nodes[i].peers()
						if err != nil {
							ps = "err"
						}
						views[ps] = true
					}
					if len(views) == 1 {
						for v := range views {
							added = strings.Contains(","+v+",", fmt.Sprintf(",%d,", x))
						}
						if !views["err"] {
							break
						}
					}
					time.Sleep(200 * time.Millisecond)
				}
				if added {
					members[x] = true
					if !nodes[x].waitReady(60 * time.Second) {
						fail("peer %d was added after all but did not report ready within 60 s", x)
					}
				} else {
					nodes[x].stop()
				}
				classes["failed-add-at-partitioned-leader"] = true
			}
			settle("after a partition of the leader healed")
			// now remove the ex-leader through another member
			var F int
			for _, i := range memberList() {
				if i != L {
					F = i
				}
			}
			script = append(script, fmt.Sprintf("peerRemove(%d at %d)", L, F))
			setMetrics()
			if err := nodes[F].f.C.PeerRemove(ctx, gen.Peers[L]); err != nil {
				leg.Inconclusive(fmt.Sprintf("PeerRemove returned an error: %v", err))
				t.Skip("not acknowledged")
			}
			delete(members, L)
			select {
			case <-nodes[L].f.C.Done():
			case <-time.After(60 * time.Second):
				fail("peer %d, removed after a partition in which an add at it had failed, did not shut itself down within 60 s", L)
			}
			nodes[L].up = false
			nodes[L].f.Host.Close()
			if _, err := os.Stat(filepath.Join(nodes[L].folder, "raft")); err == nil {
				fail("removed peer %d still has its Raft data folder", L)
			}
			if repin {
				time.Sleep(100 * time.Millisecond)
				if ps, err := nodes[F].f.C.Pins(ctx); err == nil {
					for _, p := range ps {
						if model[p.Cid.String()] != nil {
							model[p.Cid.String()] = p
						}
					}
				}
			}
			classes["nontrivial"] = true
			settle("after removing the ex-leader")

		}
		if startWithPartition {
			// one case in three opens with the partitioned-leader scenario (it
			// needs exactly three members and is otherwise rarely reached)
			partitionedAdd(t)
		}
		t.Repeat(map[string]func(*rapid.T){
			"pin": func(t *rapid.T) {
				at := pick(t, "at")
				c := gen.CidN(4).Draw(t, "cid")
				o := api.PinOptions{Name: fmt.Sprintf("n%d", len(script)), ReplicationFactorMin: 1, ReplicationFactorMax: 1}
				switch rapid.IntRange(0, 3).Draw(t, "factors") {
				case 0, 1:
					o.ReplicationFactorMin, o.ReplicationFactorMax = -1, -1
				case 2:
					// on every current member by number: once a holder leaves,
					// this pin cannot be brought back to its minimum
					if n := len(members); n >= 2 {
						o.ReplicationFactorMin, o.ReplicationFactorMax = n, n
						classes["pin-on-all-members-by-number"] = true
					}
				}
				setMetrics()
				script = append(script, fmt.Sprintf("pin@%d(c%d,%s)", at, idxCid(c), o.Name))
				p, err := nodes[at].f.C.Pin(ctx, c, o)
				if err != nil {
					leg.Inconclusive(fmt.Sprintf("pin returned an error: %v", err))
					t.Skip("not acknowledged")
				}
				model[c.String()] = p
				settle("after a pin")
			},
			"unpin": func(t *rapid.T) {
				at := pick(t, "at")
				c := gen.CidN(4).Draw(t, "cid")
				if model[c.String()] == nil {
					t.Skip("not pinned")
				}
				script = append(script, fmt.Sprintf("unpin@%d(c%d)", at, idxCid(c)))
				if _, err := nodes[at].f.C.Unpin(ctx, c); err != nil {
					leg.Inconclusive(fmt.Sprintf("unpin returned an error: %v", err))
					t.Skip("not acknowledged")
				}
				delete(model, c.String())
				settle("after an unpin")
			},
			"peerAdd": func(t *rapid.T) { addNew(t, false) },
			"join":    func(t *rapid.T) { addNew(t, true) },
			"peerAddPresent": func(t *rapid.T) {
				at, x := pick(t, "at"), pick(t, "who")
				script = append(script, fmt.Sprintf("peerAdd(present %d at %d)", x, at))
				if err := retryNoLeader(func() error { _, e := nodes[at].f.C.PeerAdd(ctx, gen.Peers[x]); return e }); err != nil {
					fail("adding a present peer must be a harmless no-op, got (for 20 s): %v", err)
				}
				classes["noop"] = true
				settle("after adding a present peer")
			},
			"peerRemoveAbsent": func(t *rapid.T) {
				at := pick(t, "at")
				script = append(script, fmt.Sprintf("peerRemove(absent at %d)", at))
				if err := retryNoLeader(func() error { return nodes[at].f.C.PeerRemove(ctx, gen.Peers[9]) }); err != nil {
					fail("removing an absent peer must be a harmless no-op, got (for 20 s): %v", err)
				}
				classes["noop"] = true
				settle("after removing an absent peer")
			},
			"crashLeaderThenRemove": func(t *rapid.T) {
				// the leader dies (no shutdown) and a follower is at once asked to
				// remove it: the call either fails or really removes it
				if len(members) < 3 {
					t.Skip("needs a quorum without the leader")
				}
				L := -1
				for _, i := range memberList() {
					if ld, err := nodes[i].cons.Leader(ctx); err == nil && pidx(ld) == i {
						L = i
					}
				}
				if L < 0 {
					t.Skip("no leader")
				}
				var F int
				for _, i := range memberList() {
					if i != L {
						F = i
					}
				}
				script = append(script, fmt.Sprintf("crash(%d) ; peerRemove(%d at %d)", L, L, F))
				nodes[L].f.Host.Close()
				err := nodes[F].f.C.PeerRemove(ctx, gen.Peers[L])
				deadline := time.Now().Add(45 * time.Second)
				for err != nil && time.Now().Before(deadline) {
					// refused while there is no leader: a dead member must be
					// removable once the survivors elected one
					time.Sleep(300 * time.Millisecond)
					setMetrics()
					err = nodes[F].f.C.PeerRemove(ctx, gen.Peers[L])
				}
				if err != nil {
					leg.Inconclusive(fmt.Sprintf("the crashed leader could not be removed within 45 s: %v", err))
					t.Skip("not acknowledged")
				}
				delete(members, L)
				nodes[L].stop()
				classes["crashed-leader-removed"] = true
				classes["nontrivial"] = true
				if repin {
					// allocations may have moved away from the dead peer
					time.Sleep(100 * time.Millisecond)
					if ps, err := nodes[F].f.C.Pins(ctx); err == nil {
						for _, p := range ps {
							if model[p.Cid.String()] != nil {
								model[p.Cid.String()] = p
							}
						}
					}
				}
				settle("after removing the crashed leader")
			},
			"addAtPartitionedLeader": func(t *rapid.T) { partitionedAdd(t) },
			"peerRemove":             func(t *rapid.T) { removePeer(t, pick(t, "at"), pick(t, "who")) },
			"removeHolderOfMixedPins": func(t *rapid.T) {
				// the departing peer holds a pin that cannot be re-homed (as many
				// copies asked for as there are members) next to pins that can:
				// the ones that can must all move
				if !repin || len(members) < 2 {
					t.Skip("needs re-pinning and two members")
				}
				x := pick(t, "who")
				at := x
				for _, i := range memberList() {
					if i != x {
						at = i
					}
				}
				if rapid.IntRange(0, 3).Draw(t, "removeItself") == 0 {
					at = x
				}
				n := len(members)
				setMetrics()
				for ci, c := range gen.Cids[:4] {
					o := api.PinOptions{Name: fmt.Sprintf("n%d", len(script)), ReplicationFactorMin: 1, ReplicationFactorMax: 1, UserAllocations: []peer.ID{gen.Peers[x]}}
					if ci%2 == rapid.IntRange(0, 1).Draw(t, "parity") {
						o = api.PinOptions{Name: fmt.Sprintf("n%d", len(script)), ReplicationFactorMin: n, ReplicationFactorMax: n}
					}
					script = append(script, fmt.Sprintf("pin@%d(c%d,%s,%d/%d)", at, ci, o.Name, o.ReplicationFactorMin, o.ReplicationFactorMax))
					p, err := nodes[at].f.C.Pin(ctx, c, o)
					if err != nil {
						leg.Inconclusive(fmt.Sprintf("pin returned an error: %v", err))
						t.Skip("not acknowledged")
					}
					model[c.String()] = p
				}
				settle("after pinning on the peer that is about to leave")
				classes["mixed-pins-on-removed-peer"] = true
				removePeer(t, at, x)
			},
		})
		var cl []string
		for k, v := range classes {
			if k != "nontrivial" && v {
				cl = append(cl, k)
			}
		}
		sort.Strings(cl)
		leg.Case(strings.Join(script, " ; "), classes["nontrivial"], cl...)
	})
}

func idxCid(c interface{ String() string }) int {
	for i, u := range gen.Cids {
		if u.String() == c.String() {
			return i
		}
	}
	return -1
}

// bulkCid returns the i-th CID of the bulk load.
func bulkCid(i int) cid.Cid {
	h, err := mh.Sum([]byte(fmt.Sprintf("verif-bulk-%d", i)), mh.SHA2_256, -1)
	if err != nil {
		panic(err)
	}
	return cid.NewCidV1(cid.Raw, h)
}

// retryNoLeader repeats a membership no-op while it fails: right after the
// leader was removed or died there is no leader for a moment and every
// membership call is refused; only a persistent refusal counts.
func retryNoLeader(f func() error) error {
	deadline := time.Now().Add(20 * time.Second)
	for {
		err := f()
		if err == nil || time.Now().After(deadline) {
			return err
		}
		time.Sleep(300 * time.Millisecond)
	}
}
