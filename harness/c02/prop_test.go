// Package c02: CRDT replicas converge; batching neither loses nor reorders
// operations.
package c02

import (
	"context"
	"errors"
	"fmt"
	"os"
	"sort"
	"strings"
	"sync/atomic"
	"testing"
	"time"

	"verifharness/internal/cmpx"
	"verifharness/internal/ev"
	"verifharness/internal/fakes"
	"verifharness/internal/gen"
	"verifharness/internal/kf"

	cid "github.com/ipfs/go-cid"
	"github.com/ipfs/ipfs-cluster/api"
	"github.com/ipfs/ipfs-cluster/consensus/crdt"
	peer "github.com/libp2p/go-libp2p-core/peer"
	"pgregory.net/rapid"
)

func TestMain(m *testing.M) {
	code := m.Run()
	ev.Flush()
	os.Exit(code)
}

// Known findings.
const (
	KFSameCidBatch = "C02-unpin-after-pin-in-one-batch"
	KFConcurrent   = "C02-concurrent-repin-diverges"
)

var caseN int64
var ctx = context.Background()

var norm = cmpx.Norm{DropUserAllocs: true, ExpirySeconds: true, ModeFromDepth: true, SortAllocs: true}

func listState(r *fakes.CRDTReplica) map[string]string {
	out := map[string]string{}
	st, err := r.Cons.State(ctx)
	if err != nil {
		return out
	}
	pins, _ := st.List(ctx)
	for _, p := range pins {
		out[p.Cid.String()] = cmpx.PinStr(p, norm)
	}
	return out
}

func renderState(m map[string]string) string {
	var k []string
	for c := range m {
		k = append(k, c)
	}
	sort.Strings(k)
	var sb strings.Builder
	for _, c := range k {
		sb.WriteString(m[c] + "\n")
	}
	return sb.String()
}

func waitState(r *fakes.CRDTReplica, want map[string]string, d time.Duration) (map[string]string, bool) {
	deadline := time.Now().Add(d)
	w := renderState(want)
	for {
		got := listState(r)
		if renderState(got) == w {
			return got, true
		}
		if time.Now().After(deadline) {
			return got, false
		}
		time.Sleep(5 * time.Millisecond)
	}
}

func cn(c cid.Cid) string {
	for i, u := range gen.Cids {
		if u.Equals(c) {
			return fmt.Sprintf("c%d", i)
		}
	}
	return c.String()
}

const ruleBatch = "state machine on one real CRDT replica: configuration drawn from {batching off, size-triggered (size 1-5, age 30 s), size-triggered with a short age (size 2-4, age 300-500 ms), age-triggered (size 50, age 150-300 ms), small queue (1-3)}; actions pin (well-formed pins over 4 CIDs), unpin, burst of n operations, pause longer than the age, a trickle (operations every age/4 for 8 ages, fewer than the batch size), datastore fault on/off (block writes of go-ds-crdt fail); model = accepted operations in order and the committed map; oracle: errors are ErrMaxQueueSizeReached (batching on) or the injected failure (batching off) and a refused operation has no effect; once size operations are accepted, or the age elapsed, the state equals the model with all of them applied, and before that (age 30 s) it is still the previous committed state; per CID the last accepted operation wins; after faults are off everything accepted is applied - in half of the short-age cases without any further operation (quiet end), otherwise after a further trigger - and a sentinel pin becomes visible; the tracker's last event per CID matches; non-trivial = a batch with two operations on one CID, a queue overflow, or a fault; distinct by script"

func TestBatching(t *testing.T) {
	leg := ev.L("batching", ruleBatch)
	rapid.Check(t, func(t *rapid.T) {
		mode := rapid.SampledFrom([]string{"off", "size", "size", "sizeshort", "age", "age", "smallqueue"}).Draw(t, "mode")
		size, age, queue := 0, time.Duration(0), 0
		switch mode {
		case "size":
			size, age = rapid.IntRange(1, 5).Draw(t, "size"), 30*time.Second
		case "sizeshort":
			// size-triggered batches with an age short enough to watch the age
			// timer pick up what a failed size-triggered commit left behind
			size, age = rapid.IntRange(2, 4).Draw(t, "size"), time.Duration(rapid.IntRange(300, 500).Draw(t, "ageMs"))*time.Millisecond
		case "age":
			size, age = 50, time.Duration(rapid.IntRange(150, 300).Draw(t, "ageMs"))*time.Millisecond
		case "smallqueue":
			size, age, queue = rapid.IntRange(2, 4).Draw(t, "size"), 200*time.Millisecond, rapid.IntRange(1, 3).Draw(t, "queue")
		}
		name := fmt.Sprintf("verif-c02a-%d-%d", os.Getpid(), atomic.AddInt64(&caseN, 1))
		r := fakes.NewCRDTReplica(gen.PeerKeys[0], func(c *crdt.Config) {
			c.ClusterName = name
			c.TrustAll = true
			c.Batching.MaxBatchSize = size
			c.Batching.MaxBatchAge = age
			if queue > 0 {
				c.Batching.MaxQueueSize = queue
			}
		})
		defer r.Close()
		committed := map[string]string{} // model of the visible state
		type pop struct {
			isPin bool
			k     string
			want  string
		}
		var pending []pop
		var script []string
		script = append(script, fmt.Sprintf("mode=%s size=%d age=%v queue=%d", mode, size, age, queue))
		classes := map[string]bool{}
		faulty := false
		everFaulty := false
		trickled := false
		fail := func(format string, a ...interface{}) {
			t.Fatalf("%s\nscript: %s", fmt.Sprintf(format, a...), strings.Join(script, " ; "))
		}
		apply := func(m map[string]string, o pop) {
			if o.isPin {
				m[o.k] = o.want
			} else {
				delete(m, o.k)
			}
		}
		pendingHas := func(k string) bool {
			for _, o := range pending {
				if o.k == k {
					return true
				}
			}
			return false
		}
		// submit one operation; returns whether it was accepted
		submit := func(isPin bool, p *api.Pin) bool {
			k := p.Cid.String()
			if mode != "off" && pendingHas(k) {
				if !isPin && kf.Open(KFSameCidBatch) {
					leg.Excl("unpin of a CID that has a pending operation in the same batch (" + KFSameCidBatch + ")")
					return false
				}
				classes["same-cid-in-batch"] = true
				classes["nontrivial"] = true
			}
			// operations arrive with the context of the request that carries
			// them, which ends as soon as the request is answered
			opctx, opcancel := context.WithCancel(ctx)
			var err error
			if isPin {
				err = r.Cons.LogPin(opctx, p)
				script = append(script, "pin("+cn(p.Cid)+","+p.Name+")")
			} else {
				err = r.Cons.LogUnpin(opctx, p)
				script = append(script, "unpin("+cn(p.Cid)+")")
			}
			opcancel()
			if err != nil {
				script[len(script)-1] += "!err"
				switch {
				case mode != "off" && errors.Is(err, crdt.ErrMaxQueueSizeReached):
					classes["overflow"] = true
					classes["nontrivial"] = true
				case mode == "off" && faulty:
					classes["direct-write-failed"] = true
				default:
					fail("operation failed with an unexpected error: %v", err)
				}
				return false
			}
			o := pop{isPin, k, cmpx.PinStr(p, norm)}
			if mode == "off" {
				apply(committed, o)
			} else {
				pending = append(pending, o)
			}
			return true
		}
		// sync waits until the visible state equals the model with the first k
		// pending operations applied, for some k in [lo, hi]; those become committed.
		sync := func(why string, lo, hi int, d time.Duration) {
			deadline := time.Now().Add(d)
			var got map[string]string
			for {
				got = listState(r)
				g := renderState(got)
				m := map[string]string{}
				for k, v := range committed {
					m[k] = v
				}
				for k := 0; k <= len(pending); k++ {
					if k > 0 {
						apply(m, pending[k-1])
					}
					if k >= lo && k <= hi && renderState(m) == g {
						for _, o := range pending[:k] {
							apply(committed, o)
						}
						if len(pending) > 0 {
							script = append(script, fmt.Sprintf("[sync %d/%d]", k, len(pending)))
						}
						pending = append([]pop(nil), pending[k:]...)
						return
					}
				}
				if time.Now().After(deadline) {
					break
				}
				time.Sleep(5 * time.Millisecond)
			}
			all := map[string]string{}
			for k, v := range committed {
				all[k] = v
			}
			for _, o := range pending {
				apply(all, o)
			}
			fail("%s: the visible state is not the committed state plus a prefix of between %d and %d of the %d accepted operations (batch size %d, age %v)\ncommitted:\n%swith all accepted:\n%svisible:\n%s", why, lo, hi, len(pending), size, age, renderState(committed), renderState(all), renderState(got))
		}
		// settle: decide what must be visible now
		settle := func(why string) {
			switch {
			case mode == "off":
				sync(why, 0, 0, 10*time.Second)
			case everFaulty:
				// once a commit may have failed, batch boundaries are no longer
				// known to the model and a batch becomes visible element by
				// element: no intermediate claim; the end of the case (faults
				// off, one more trigger) must show every accepted operation
			case mode == "size":
				whole := len(pending) - len(pending)%size
				sync(why, whole, whole, 20*time.Second)
			case mode == "sizeshort":
				// whole batches are due; the age timer may have added the rest
				whole := len(pending) - len(pending)%size
				sync(why, whole, len(pending), 20*time.Second)
			default: // age trigger: nothing is due before the age elapsed
			}
		}
		drawPin := func(t *rapid.T) *api.Pin {
			c := gen.Full
			c.NCids = 4
			c.UnixZero = false
			p := gen.Pin(c).Draw(t, "pin")
			p.Name = fmt.Sprintf("n%d", len(script))
			return p
		}
		t.Repeat(map[string]func(*rapid.T){
			"pin": func(t *rapid.T) {
				submit(true, drawPin(t))
				settle("after pin")
			},
			"unpin": func(t *rapid.T) {
				submit(false, api.PinCid(gen.CidN(4).Draw(t, "cid")))
				settle("after unpin")
			},
			"burst": func(t *rapid.T) {
				n := rapid.IntRange(2, 8).Draw(t, "n")
				for i := 0; i < n; i++ {
					if rapid.IntRange(0, 3).Draw(t, "isunpin") == 0 {
						submit(false, api.PinCid(gen.CidN(4).Draw(t, "cid")))
					} else {
						submit(true, drawPin(t))
					}
				}
				settle("after burst")
			},
			"pause": func(t *rapid.T) {
				if mode != "age" && mode != "smallqueue" && mode != "sizeshort" {
					t.Skip("no age trigger")
				}
				time.Sleep(age + 50*time.Millisecond)
				script = append(script, "pause")
				if !everFaulty {
					sync("after a pause longer than the batch age", len(pending), len(pending), 20*time.Second)
				}
			},
			"trickle": func(t *rapid.T) {
				// operations keep arriving closer together than the batch age and
				// never fill the batch: the age limit alone must commit them
				if mode != "age" || everFaulty || trickled {
					t.Skip("needs the age trigger, no faults, once per case")
				}
				trickled = true
				sync("before a trickle", len(pending), len(pending), 20*time.Second)
				var at []time.Time
				start := time.Now()
				for time.Since(start) < 8*age && len(at) < 45 {
					if submit(true, drawPin(t)) {
						at = append(at, time.Now())
					}
					time.Sleep(age / 4)
				}
				script = append(script, fmt.Sprintf("[trickle of %d over %v]", len(at), time.Since(start).Round(time.Millisecond)))
				due := 0
				now := time.Now()
				for _, a := range at {
					if now.Sub(a) > 6*age {
						due++
					}
				}
				classes["trickle"] = true
				classes["nontrivial"] = true
				sync(fmt.Sprintf("operations kept arriving every %v for %v: the %d accepted more than 6 batch ages ago must have been committed by the age limit", age/4, time.Since(start).Round(time.Millisecond), due), due, len(pending), age/2)
			},
			"faultOn": func(t *rapid.T) {
				if faulty {
					t.Skip("already on")
				}
				r.Store.FailOn("/b/")
				faulty = true
				everFaulty = true
				classes["fault"] = true
				classes["nontrivial"] = true
				script = append(script, "faultOn")
				if mode == "age" || mode == "smallqueue" {
					// let an age commit fail while operations are pending
					if len(pending) > 0 {
						time.Sleep(age + 60*time.Millisecond)
						script = append(script, "pause(faulty)")
					}
				}
			},
			"faultOff": func(t *rapid.T) {
				if !faulty {
					t.Skip("not on")
				}
				r.Store.FailOn("")
				faulty = false
				script = append(script, "faultOff")
			},
		})
		// end of case: faults off, one further trigger, sentinel
		r.Store.FailOn("")
		faulty = false
		script = append(script, "| end")
		sentinel := api.PinCid(gen.Cids[6])
		sentinel.Name = "sentinel"
		// with a short batch age, half of the cases end quietly: nothing more is
		// submitted, and what was accepted must still be applied (the age
		// timer retries whatever an earlier failed commit left behind)
		quiet := (mode == "sizeshort" || mode == "smallqueue" || mode == "age") && rapid.Bool().Draw(t, "quietEnd")
		if quiet {
			script = append(script, "[quiet end]")
			classes["quiet-end"] = true
			final := map[string]string{}
			for k, v := range committed {
				final[k] = v
			}
			for _, o := range pending {
				apply(final, o)
			}
			if got, ok := waitState(r, final, 6*age+5*time.Second); !ok {
				fail("quiet end: %v after the datastore became healthy (batch age %v) and without further operations the accepted operations are still not applied\nwant:\n%sgot:\n%s", 6*age+5*time.Second, age, renderState(final), renderState(got))
			}
		}
		if mode == "off" {
			if !submit(true, sentinel) {
				fail("sentinel refused")
			}
		} else {
			// in size mode submit the (idempotent) sentinel a whole batch of times:
			// whatever the worker's count is, a size trigger fires after the first one
			n := 1
			if mode == "size" {
				n = size
			}
			for i, tries := 0, 0; i < n && tries < 200; tries++ {
				if submit(true, sentinel) {
					i++
				} else {
					time.Sleep(20 * time.Millisecond)
				}
			}
		}
		final := map[string]string{}
		for k, v := range committed {
			final[k] = v
		}
		for _, o := range pending {
			apply(final, o)
		}
		got, ok := waitState(r, final, 30*time.Second)
		if !ok {
			if got[sentinel.Cid.String()] == "" {
				fail("the batch worker stopped applying: the sentinel pin (accepted without error) is not visible after 30 s with a healthy datastore\nwant:\n%sgot:\n%s", renderState(final), renderState(got))
			}
			fail("final state differs from the model: accepted operations were lost or reordered\nwant:\n%sgot:\n%s", renderState(final), renderState(got))
		}
		// tracker: last event per CID
		time.Sleep(10 * time.Millisecond)
		last := map[string]string{}
		for _, c := range r.Rec.Take() {
			switch c.Name {
			case "PinTracker.Track":
				p := c.Arg.(*api.Pin)
				last[p.Cid.String()] = "track:" + cmpx.PinStr(p, norm)
			case "PinTracker.Untrack":
				p := c.Arg.(*api.Pin)
				last[p.Cid.String()] = "untrack"
			}
		}
		for k, v := range final {
			if last[k] != "track:"+v {
				fail("pin %s is in the pinset but the tracker's last event for it is %q", k, last[k])
			}
		}
		for k, ev := range last {
			if _, in := final[k]; !in && ev != "untrack" {
				fail("pin %s is not in the pinset but the tracker's last event for it is a track", k)
			}
		}
		var cl []string
		for k := range classes {
			if k != "nontrivial" {
				cl = append(cl, k)
			}
		}
		sort.Strings(cl)
		cl = append(cl, "mode:"+mode)
		leg.Case(strings.Join(script, " ; "), classes["nontrivial"], cl...)
	})
}

const ruleConv = "2-3 real CRDT replicas (trusting everybody, or listing each other in trusted_peers before they have met; some with batching) on loopback; a case is 1-3 phases, each = a connectivity graph owned by the harness (connection gater + close/connect) and 0-4 pin/unpin operations per replica over 3 CIDs; then full mesh, one marker pin per replica, and quiescence = every marker visible everywhere and listings unchanged over 3 polls spanning two rebroadcast intervals; oracle: all replicas hold the same pinset (CID set and stored pin per CID), and every CID in a replica's final pinset was handed to its tracker with the final content; non-trivial = a CID written on two replicas with an unpin among the writes while some link was down; distinct by script"

func TestConvergence(t *testing.T) {
	leg := ev.L("convergence", ruleConv)
	rapid.Check(t, func(t *rapid.T) {
		n := rapid.IntRange(2, 3).Draw(t, "replicas")
		name := fmt.Sprintf("verif-c02b-%d-%d", os.Getpid(), atomic.AddInt64(&caseN, 1))
		var reps []*fakes.CRDTReplica
		// trust: everybody ("*"), or the documented production form: each
		// replica's trusted_peers lists the replicas by ID, written before
		// the peers have ever met (no address of theirs is known at start)
		listed := rapid.Bool().Draw(t, "trustedPeersListed")
		for i := 0; i < n; i++ {
			batch := rapid.IntRange(0, 2).Draw(t, "batching") == 0
			reps = append(reps, fakes.NewCRDTReplica(gen.PeerKeys[i], func(c *crdt.Config) {
				c.ClusterName = name
				c.TrustAll = !listed
				if listed {
					c.TrustedPeers = append([]peer.ID(nil), gen.Peers[:n]...)
				}
				c.RebroadcastInterval = 250 * time.Millisecond
				if batch {
					c.Batching.MaxBatchSize = 3
					c.Batching.MaxBatchAge = 100 * time.Millisecond
				}
			}))
		}
		defer func() {
			for _, r := range reps {
				r.Close()
			}
		}()
		var script []string
		if listed {
			script = append(script, "trusted_peers listed")
		}
		connected := map[[2]int]bool{}
		setLink := func(i, j int, up bool) {
			if i > j {
				i, j = j, i
			}
			if connected[[2]int{i, j}] == up {
				return
			}
			connected[[2]int{i, j}] = up
			if up {
				if err := reps[i].Heal(reps[j]); err != nil {
					t.Fatalf("VERIF-INFRA: connect %d-%d: %v", i, j, err)
				}
			} else {
				reps[i].Partition(reps[j])
			}
		}
		writers := map[string]map[int]bool{}
		unpinned := map[string]bool{}
		concurrent := false
		phases := rapid.IntRange(1, 3).Draw(t, "phases")
		for ph := 0; ph < phases; ph++ {
			var links []string
			partitioned := false
			for i := 0; i < n; i++ {
				for j := i + 1; j < n; j++ {
					up := rapid.IntRange(0, 2).Draw(t, "link") != 0
					setLink(i, j, up)
					if up {
						links = append(links, fmt.Sprintf("%d-%d", i, j))
					} else {
						partitioned = true
					}
				}
			}
			script = append(script, fmt.Sprintf("phase%d links=%v", ph, links))
			phaseWriters := map[string]map[int]bool{}
			for i := 0; i < n; i++ {
				ops := rapid.IntRange(0, 4).Draw(t, "nops")
				for k := 0; k < ops; k++ {
					c := gen.CidN(3).Draw(t, "cid")
					isUnpin := rapid.IntRange(0, 3).Draw(t, "unpin") == 0
					var err error
					if isUnpin {
						err = reps[i].Cons.LogUnpin(ctx, api.PinCid(c))
						script = append(script, fmt.Sprintf("r%d.unpin(%s)", i, cn(c)))
						unpinned[c.String()] = true
					} else {
						cfg := gen.Full
						cfg.UnixZero = false
						p := gen.PinOf(cfg, &c).Draw(t, "pin")
						p.Name = fmt.Sprintf("r%d-%d", i, len(script))
						err = reps[i].Cons.LogPin(ctx, p)
						script = append(script, fmt.Sprintf("r%d.pin(%s,%s)", i, cn(c), p.Name))
					}
					if err != nil {
						t.Fatalf("operation failed: %v\nscript: %s", err, strings.Join(script, " ; "))
					}
					if phaseWriters[c.String()] == nil {
						phaseWriters[c.String()] = map[int]bool{}
					}
					phaseWriters[c.String()][i] = true
					if writers[c.String()] == nil {
						writers[c.String()] = map[int]bool{}
					}
					writers[c.String()][i] = true
				}
			}
			for c, w := range phaseWriters {
				if len(w) >= 2 && partitioned && unpinned[c] {
					concurrent = true
				}
			}
			time.Sleep(time.Duration(rapid.IntRange(0, 300).Draw(t, "dwellMs")) * time.Millisecond)
		}
		// full mesh, markers
		for i := 0; i < n; i++ {
			for j := i + 1; j < n; j++ {
				setLink(i, j, true)
			}
		}
		script = append(script, "full mesh")
		if listed {
			// "peers that trust each other": the configuration says so, the
			// replicas must agree (independent of any delivery timing)
			for i := 0; i < n; i++ {
				for j := 0; j < n; j++ {
					if !reps[i].Cons.IsTrustedPeer(ctx, gen.Peers[j]) {
						t.Fatalf("replica %d was configured with replica %d in its trusted_peers but does not trust it (IsTrustedPeer is false after they connected): their pinsets can never converge\nscript: %s", i, j, strings.Join(script, " ; "))
					}
				}
			}
		}
		for i := 0; i < n; i++ {
			m := api.PinCid(gen.Cids[8+i])
			m.Name = fmt.Sprintf("marker%d", i)
			if err := reps[i].Cons.LogPin(ctx, m); err != nil {
				t.Fatalf("marker: %v", err)
			}
		}
		deadline := time.Now().Add(60 * time.Second)
		stable := 0
		var lastStates []string
		for {
			ok := true
			var states []string
			for i := 0; i < n; i++ {
				st := listState(reps[i])
				for j := 0; j < n; j++ {
					if _, has := st[gen.Cids[8+j].String()]; !has {
						ok = false
					}
				}
				states = append(states, renderState(st))
			}
			if ok && strings.Join(states, "|") == strings.Join(lastStates, "|") {
				stable++
			} else {
				stable = 0
			}
			lastStates = states
			if stable >= 3 {
				break
			}
			if time.Now().After(deadline) {
				if !ok {
					leg.Inconclusive("markers did not propagate within 60 s")
					t.Skip("inconclusive")
				}
				break
			}
			time.Sleep(200 * time.Millisecond)
		}
		// CIDs written on two replicas with an unpin among the writes: content is
		// subject to the listed dependency finding; membership is always compared
		risky := map[string]bool{}       // content may differ (listed finding)
		riskyMember := map[string]bool{} // membership may differ (listed finding)
		for c, w := range writers {
			if len(w) >= 2 {
				risky[c] = true
				if unpinned[c] {
					riskyMember[c] = true
				}
			}
		}
		final := make([]map[string]string, n)
		// a difference must persist: give late deliveries another 15 s
		grace := time.Now().Add(15 * time.Second)
		for {
			same := true
			for i := 0; i < n; i++ {
				final[i] = listState(reps[i])
				if i > 0 && renderState(final[i]) != renderState(final[0]) {
					same = false
				}
			}
			if same || time.Now().After(grace) {
				break
			}
			time.Sleep(250 * time.Millisecond)
		}
		for i := 1; i < n; i++ {
			for _, pair := range [][2]int{{0, i}, {i, 0}} {
				for c, v := range final[pair[0]] {
					w, ok := final[pair[1]][c]
					if !ok {
						if riskyMember[c] && kf.Open(KFConcurrent) {
							leg.Excl("membership of a CID with concurrent pin/unpin history not compared (" + KFConcurrent + ")")
							continue
						}
						t.Fatalf("replicas have exchanged all updates (every marker visible everywhere, listings stable) but %s is pinned on replica %d and not on replica %d\nscript: %s", c, pair[0], pair[1], strings.Join(script, " ; "))
					}
					if v != w {
						if risky[c] && kf.Open(KFConcurrent) {
							leg.Excl("content of a CID written on two replicas not compared (" + KFConcurrent + ")")
							continue
						}
						t.Fatalf("replicas have exchanged all updates but hold different pins for %s\nreplica %d: %s\nreplica %d: %s\nscript: %s", c, pair[0], v, pair[1], w, strings.Join(script, " ; "))
					}
				}
			}
		}
		// tracker hand-off (weak form): every pin in the final pinset was tracked with its final content
		time.Sleep(20 * time.Millisecond)
		for i := 0; i < n; i++ {
			tracked := map[string]bool{}
			for _, c := range reps[i].Rec.Take() {
				if c.Name == "PinTracker.Track" {
					tracked[cmpx.PinStr(c.Arg.(*api.Pin), norm)] = true
				}
			}
			for k, v := range listState(reps[i]) {
				if !tracked[v] {
					t.Fatalf("replica %d holds %s in its pinset but never handed that pin to its tracker\nscript: %s", i, k, strings.Join(script, " ; "))
				}
			}
		}
		cl := fmt.Sprintf("replicas:%d", n)
		leg.Case(strings.Join(script, " ; "), concurrent, cl)
	})
}
