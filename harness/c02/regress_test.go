package c02

import (
	"fmt"
	"os"
	"sync/atomic"
	"testing"
	"time"

	"verifharness/internal/ev"
	"verifharness/internal/fakes"
	"verifharness/internal/gen"
	"verifharness/internal/kf"

	"github.com/ipfs/ipfs-cluster/api"
	"github.com/ipfs/ipfs-cluster/consensus/crdt"
)

func twoReplicas(name string) (*fakes.CRDTReplica, *fakes.CRDTReplica) {
	mk := func(i int) *fakes.CRDTReplica {
		return fakes.NewCRDTReplica(gen.PeerKeys[i], func(c *crdt.Config) {
			c.ClusterName = name
			c.TrustAll = true
			c.RebroadcastInterval = 250 * time.Millisecond
		})
	}
	return mk(0), mk(1)
}

func converged(a, b *fakes.CRDTReplica, markers []string) bool {
	deadline := time.Now().Add(30 * time.Second)
	for time.Now().Before(deadline) {
		sa, sb := listState(a), listState(b)
		ok := true
		for _, m := range markers {
			if sa[m] == "" || sb[m] == "" {
				ok = false
			}
		}
		if ok {
			time.Sleep(600 * time.Millisecond)
			return true
		}
		time.Sleep(50 * time.Millisecond)
	}
	return false
}

// Probe of the open finding KFConcurrent (dependency go-ds-crdt v0.1.21).
func TestRegressKnownConcurrentRepin(t *testing.T) {
	if !kf.Open(KFConcurrent) {
		t.Skip("not listed")
	}
	reproduced := false
	detail := ""
	for attempt := 0; attempt < 3 && !reproduced; attempt++ {
		name := fmt.Sprintf("verif-c02k-%d-%d", os.Getpid(), atomic.AddInt64(&caseN, 1))
		a, b := twoReplicas(name)
		c := gen.Cids[0]
		mk := func(n string) *api.Pin { p := api.PinCid(c); p.Name = n; return p }
		a.Cons.LogPin(ctx, mk("a1"))
		a.Cons.LogPin(ctx, mk("a2"))
		a.Cons.LogUnpin(ctx, api.PinCid(c))
		b.Cons.LogPin(ctx, mk("b1"))
		a.Connect(b)
		ma, mb := api.PinCid(gen.Cids[8]), api.PinCid(gen.Cids[9])
		a.Cons.LogPin(ctx, ma)
		b.Cons.LogPin(ctx, mb)
		if converged(a, b, []string{ma.Cid.String(), mb.Cid.String()}) {
			sa, sb := listState(a)[c.String()], listState(b)[c.String()]
			if sa != sb {
				reproduced = true
				detail = "replica A (pinned twice then unpinned c) and replica B (pinned c concurrently) hold different entries for c after exchanging all updates"
			}
		}
		a.Close()
		b.Close()
	}
	if detail == "" {
		detail = "3 attempts of the two-replica scenario converged to equal pins"
	}
	ev.KnownFinding(KFConcurrent, reproduced, detail)
}

// after a failed commit on max age the batch worker must keep working.
func TestRegressBatchWorkerSurvivesFailedAgeCommit(t *testing.T) {
	name := fmt.Sprintf("verif-c02r-%d-%d", os.Getpid(), atomic.AddInt64(&caseN, 1))
	r := fakes.NewCRDTReplica(gen.PeerKeys[0], func(c *crdt.Config) {
		c.ClusterName = name
		c.TrustAll = true
		c.Batching.MaxBatchSize = 3
		c.Batching.MaxBatchAge = 150 * time.Millisecond
	})
	defer r.Close()
	r.Store.FailOn("/b/")
	r.Cons.LogPin(ctx, api.PinCid(gen.Cids[0]))
	time.Sleep(250 * time.Millisecond) // the age commit fails
	r.Store.FailOn("")
	for i := 1; i <= 5; i++ {
		if err := r.Cons.LogPin(ctx, api.PinCid(gen.Cids[i])); err != nil {
			t.Fatalf("pin %d refused: %v", i, err)
		}
	}
	want := map[string]bool{}
	for i := 0; i <= 5; i++ {
		want[gen.Cids[i].String()] = true
	}
	deadline := time.Now().Add(15 * time.Second)
	for time.Now().Before(deadline) {
		st := listState(r)
		n := 0
		for k := range want {
			if st[k] != "" {
				n++
			}
		}
		if n == len(want) {
			return
		}
		time.Sleep(20 * time.Millisecond)
	}
	t.Fatalf("accepted pins were never applied after a failed commit on max age: %d of %d visible", len(listState(r)), len(want))
}
