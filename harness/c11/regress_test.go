package c11

import (
	"context"
	"io/ioutil"
	"net/http"
	"testing"

	"verifharness/internal/gen"

	"github.com/ipfs/ipfs-cluster/api"
	"github.com/ipfs/ipfs-cluster/api/rest/client"
)

func TestRegressInvalidOptionNotExecuted(t *testing.T) {
	s := srvs[0]
	s.rec.Reset()
	resp, err := http.Post(s.url+"/pins/"+gen.Cids[0].String()+"?replication-min=two", "", nil)
	if err != nil {
		t.Fatal(err)
	}
	b, _ := ioutil.ReadAll(resp.Body)
	resp.Body.Close()
	if resp.StatusCode != 400 {
		t.Fatalf("status %d", resp.StatusCode)
	}
	if calls := s.rec.Take(); len(calls) != 0 {
		t.Fatalf("invalid option but the cluster was called: %v", callNames(calls))
	}
	if err := oneJSON(b); err != nil {
		t.Fatalf("%v: %q", err, b)
	}
}

func TestRegressClientPathEscaping(t *testing.T) {
	s := srvs[0]
	s.rec.Reset()
	c, _ := client.NewDefaultClient(&client.Config{APIAddr: s.maddr})
	p := "/ipfs/" + gen.Cids[0].String() + "/x?y/h#z/100%"
	c.PinPath(context.Background(), p, api.PinOptions{})
	calls := s.rec.Take()
	if len(calls) != 1 || calls[0].Arg.(*api.PinPath).Path != p {
		t.Fatalf("PinPath(%q) arrived as %v", p, calls)
	}
}

func TestRegressDirectModeByCid(t *testing.T) {
	s := srvs[0]
	s.rec.Reset()
	c, _ := client.NewDefaultClient(&client.Config{APIAddr: s.maddr})
	c.Pin(context.Background(), gen.Cids[0], api.PinOptions{Mode: api.PinModeDirect})
	calls := s.rec.Take()
	if len(calls) != 1 {
		t.Fatal(calls)
	}
	if p := calls[0].Arg.(*api.Pin); p.MaxDepth != 0 {
		t.Fatalf("mode=direct arrived with max depth %d", p.MaxDepth)
	}
}
