// Package c11: the REST API is fail-closed, authenticated and faithful to the
// request; the bundled client delivers its arguments and returns the answer.
package c11

import (
	"bytes"
	"context"
	"encoding/json"
	"fmt"
	"io"
	"io/ioutil"
	"mime/multipart"
	"net"
	"net/http"
	"net/textproto"
	"net/url"
	"os"
	"strings"
	"sync"
	"testing"
	"time"

	"verifharness/internal/cmpx"
	"verifharness/internal/ev"
	"verifharness/internal/fakes"
	"verifharness/internal/gen"
	"verifharness/internal/kf"

	cid "github.com/ipfs/go-cid"
	files "github.com/ipfs/go-ipfs-files"
	gopath "github.com/ipfs/go-path"
	"github.com/ipfs/ipfs-cluster/api"
	"github.com/ipfs/ipfs-cluster/api/rest"
	"github.com/ipfs/ipfs-cluster/api/rest/client"
	peer "github.com/libp2p/go-libp2p-core/peer"
	ma "github.com/multiformats/go-multiaddr"
	"pgregory.net/rapid"
)

// Known findings.
const (
	KFOptionErr  = "C11-option-error-still-executes"
	KFPathEscape = "C11-client-path-not-escaped"
	KFDirectMode = "C11-pin-by-cid-forces-recursive-depth"
)

type server struct {
	url   string
	maddr ma.Multiaddr
	rec   *fakes.Recorder
	auth  bool
}

// API instances: basic auth off/on x request tracing off/on
var srvs [4]*server

const user, pass = "verif-user", "verif-pass"
const user2, pass2 = "second", "p2"

func freePort() int {
	l, err := net.Listen("tcp", "127.0.0.1:0")
	if err != nil {
		panic(err)
	}
	defer l.Close()
	return l.Addr().(*net.TCPAddr).Port
}

// startServer starts a REST API. With fromFile the configuration takes the
// daemon's route: the restapi section as JSON (credentials in the file), then
// LoadJSON and ApplyEnvVars; otherwise it is filled in Go.
func startServer(auth, tracing, fromFile bool) *server {
	port := freePort()
	cfg := &rest.Config{}
	cfg.Default()
	la, _ := ma.NewMultiaddr(fmt.Sprintf("/ip4/127.0.0.1/tcp/%d", port))
	if fromFile {
		raw, err := cfg.ToJSON()
		if err != nil {
			panic(err)
		}
		var sec map[string]interface{}
		json.Unmarshal(raw, &sec)
		sec["http_listen_multiaddress"] = la.String()
		if auth {
			sec["basic_auth_credentials"] = map[string]string{user: pass, user2: pass2}
		}
		raw, _ = json.Marshal(sec)
		cfg = &rest.Config{}
		if err := cfg.LoadJSON(raw); err != nil {
			panic(err)
		}
		if err := cfg.ApplyEnvVars(); err != nil {
			panic(err)
		}
	} else {
		cfg.HTTPListenAddr = []ma.Multiaddr{la}
		if auth {
			cfg.BasicAuthCredentials = map[string]string{user: pass, user2: pass2}
		}
	}
	cfg.Tracing = tracing
	a, err := rest.NewAPI(context.Background(), cfg)
	if err != nil {
		panic(err)
	}
	rec := fakes.NewRecorder()
	a.SetClient(fakes.NewRecordingRPC(rec))
	for i := 0; i < 300; i++ {
		c, err := net.Dial("tcp", fmt.Sprintf("127.0.0.1:%d", port))
		if err == nil {
			c.Close()
			break
		}
		time.Sleep(10 * time.Millisecond)
	}
	return &server{url: fmt.Sprintf("http://127.0.0.1:%d", port), maddr: la, rec: rec, auth: auth}
}

func TestMain(m *testing.M) {
	srvs[0] = startServer(false, false, true)
	srvs[1] = startServer(true, false, true)
	srvs[2] = startServer(false, true, false)
	srvs[3] = startServer(true, true, false)
	code := m.Run()
	ev.Flush()
	os.Exit(code)
}

var httpc = &http.Client{Timeout: 20 * time.Second, CheckRedirect: func(*http.Request, []*http.Request) error { return http.ErrUseLastResponse }}

func callNames(cs []fakes.RPCCall) []string {
	var s []string
	for _, c := range cs {
		s = append(s, c.Name)
	}
	return s
}

// oneJSON checks that the body is exactly one JSON value followed by EOF.
func oneJSON(b []byte) error {
	dec := json.NewDecoder(bytes.NewReader(b))
	var v interface{}
	if err := dec.Decode(&v); err != nil {
		return fmt.Errorf("not JSON: %v", err)
	}
	if err := dec.Decode(&v); err != io.EOF {
		return fmt.Errorf("more than one JSON document (or trailing data)")
	}
	return nil
}

type optSet struct {
	q        url.Values
	opts     api.PinOptions
	invalid  string // name of the invalid element, "" if all valid
	expireIn bool
	n        int
}

var qnorm = cmpx.Norm{DropEmptyMetaKey: true}

func drawOpts(t *rapid.T, allowInvalid bool) optSet {
	o := optSet{q: url.Values{}}
	c := gen.Full
	c.UnixZero = false
	c.ZeroFactors = true
	base := gen.Options(c).Draw(t, "opts")
	// send a generated subset of the options
	if rapid.Bool().Draw(t, "o-factors") {
		o.opts.ReplicationFactorMin, o.opts.ReplicationFactorMax = base.ReplicationFactorMin, base.ReplicationFactorMax
		o.q.Set("replication-min", fmt.Sprint(base.ReplicationFactorMin))
		o.q.Set("replication-max", fmt.Sprint(base.ReplicationFactorMax))
		o.n++
	}
	if rapid.Bool().Draw(t, "o-name") {
		o.opts.Name = base.Name
		o.q.Set("name", base.Name)
		o.n++
	}
	if rapid.Bool().Draw(t, "o-mode") {
		o.opts.Mode = base.Mode
		o.q.Set("mode", base.Mode.String())
		o.n++
	}
	if rapid.Bool().Draw(t, "o-shard") {
		o.opts.ShardSize = base.ShardSize
		o.q.Set("shard-size", fmt.Sprint(base.ShardSize))
		o.n++
	}
	if rapid.Bool().Draw(t, "o-ua") && len(base.UserAllocations) > 0 {
		o.opts.UserAllocations = base.UserAllocations
		o.q.Set("user-allocations", strings.Join(api.PeersToStrings(base.UserAllocations), ","))
		o.n++
	}
	if rapid.Bool().Draw(t, "o-exp") && !base.ExpireAt.IsZero() {
		o.opts.ExpireAt = base.ExpireAt
		b, _ := base.ExpireAt.MarshalText()
		o.q.Set("expire-at", string(b))
		o.n++
	}
	if rapid.Bool().Draw(t, "o-meta") {
		for k, v := range base.Metadata {
			if k == "" {
				continue
			}
			if o.opts.Metadata == nil {
				o.opts.Metadata = map[string]string{}
			}
			o.opts.Metadata[k] = v
			o.q.Set("meta-"+k, v)
			o.n++
		}
	}
	if rapid.Bool().Draw(t, "o-update") && base.PinUpdate.Defined() {
		o.opts.PinUpdate = base.PinUpdate
		o.q.Set("pin-update", base.PinUpdate.String())
		o.n++
	}
	if rapid.Bool().Draw(t, "o-origins") && len(base.Origins) > 0 {
		o.opts.Origins = base.Origins
		var s []string
		for _, m := range base.Origins {
			s = append(s, m.String())
		}
		o.q.Set("origins", strings.Join(s, ","))
		o.n++
	}
	if allowInvalid && rapid.IntRange(0, 2).Draw(t, "invalid") == 0 {
		bad := rapid.SampledFrom([][2]string{
			{"replication-min", "two"}, {"replication-max", "1.5"}, {"replication", "x"}, {"shard-size", "-1"}, {"shard-size", "big"},
			{"expire-at", "tomorrow"}, {"expire-in", "soon"}, {"expire-in", "10ms"}, {"pin-update", "notacid"},
			{"origins", "notamultiaddr"}, {"origins", "/ip4/1.2.3.4/tcp/4001"},
		}).Draw(t, "badopt")
		o.q.Del("expire-at")
		if bad[0] == "replication" {
			o.q.Del("replication-min")
			o.q.Del("replication-max")
		}
		o.q.Set(bad[0], bad[1])
		o.invalid = bad[0] + "=" + bad[1]
	} else if rapid.IntRange(0, 9).Draw(t, "expirein") == 0 {
		o.q.Del("expire-at")
		o.q.Set("expire-in", "2h")
		o.expireIn = true
		o.n++
	}
	return o
}

func checkOpts(t *rapid.T, what string, got api.PinOptions, o optSet) {
	if o.expireIn {
		d := time.Until(got.ExpireAt)
		if d < 2*time.Hour-time.Minute || d > 2*time.Hour+time.Minute {
			t.Fatalf("%s: expire-in=2h arrived as expiry in %v", what, d)
		}
		got.ExpireAt = time.Time{}
		o.opts.ExpireAt = time.Time{}
	}
	if a, b := cmpx.OptsStr(o.opts, qnorm), cmpx.OptsStr(got, qnorm); a != b {
		t.Fatalf("%s: options received by the cluster differ from the options sent: %s\nquery: %s", what, cmpx.Diff(a, b), o.q.Encode())
	}
}

var credKinds = []string{"none", "wronguser", "wrongpass", "unknown-empty", "known-empty", "empty-empty", "crossed", "garbage-header", "bearer", "right", "right", "right", "right2"}

func credOK(cred string) bool { return cred == "right" || cred == "right2" }

func setCred(req *http.Request, cred string) {
	switch cred {
	case "wronguser":
		req.SetBasicAuth("someone", pass)
	case "wrongpass":
		req.SetBasicAuth(user, "nope")
	case "unknown-empty":
		req.SetBasicAuth("nobody", "")
	case "known-empty":
		req.SetBasicAuth(user, "")
	case "empty-empty":
		req.SetBasicAuth("", "")
	case "crossed":
		req.SetBasicAuth(user, pass2)
	case "garbage-header":
		req.Header.Set("Authorization", "Basic !!!not-base64")
	case "bearer":
		req.Header.Set("Authorization", "Bearer "+pass)
	case "right":
		req.SetBasicAuth(user, pass)
	case "right2":
		req.SetBasicAuth(user2, pass2)
	}
}

const ruleAdd = "raw POST /add requests against the four API instances: a multipart body with one file of 0-3000 drawn bytes (or a body that is not multipart), each add option absent, valid, or (at most one) invalid: values the query parser must reject (layout, format, booleans, cid-version, replication factor, expire-in) or values that decode but cannot be honoured (unknown hash function or chunker, format=car with a body that is not a CAR, sha2-512 with CID version 0, an upload of a directory that breaks off inside the header block or the content of its last part); stream-channels true or false; credentials as in the raw leg; oracle: 401 and no RPC without valid credentials; 4xx, no RPC and one JSON document for what the parser must reject; for values that cannot be honoured no Cluster.Pin, and either (buffered) an error status with exactly one JSON document or (streamed) status 200 with the error in the X-Stream-Error trailer and a body that is a sequence of JSON objects; for a valid request status 200, exactly one Cluster.Pin of the last reported CID with the name and factors sent, and a body that is one JSON array (buffered) or a sequence of objects (streamed); non-trivial = an invalid element or stream-channels=false or >= 3 options; distinct by request"

func TestAddRaw(t *testing.T) {
	leg := ev.L("raw-add", ruleAdd)
	rapid.Check(t, func(t *rapid.T) {
		s := srvs[rapid.IntRange(0, 3).Draw(t, "server")]
		s.rec.Reset()
		// blocks go to the local IPFS connector; Pin answers with the pin it got
		s.rec.Set("Cluster.BlockAllocate", func(interface{}) (interface{}, error) { return []peer.ID{""}, nil })
		s.rec.Set("Cluster.Pin", func(arg interface{}) (interface{}, error) { return arg, nil })
		cred := rapid.SampledFrom(credKinds).Draw(t, "cred")
		q := url.Values{}
		nopts := 0
		invalid := "" // "" | parser:<name> | semantic:<name> | not-multipart
		var brokenBody []byte
		var brokenCT string
		content := rapid.SliceOfN(rapid.Byte(), 0, 3000).Draw(t, "content")
		kind := rapid.SampledFrom([]string{"valid", "valid", "valid", "parser", "semantic", "not-multipart"}).Draw(t, "kind")
		opt := func(name string, vals ...string) {
			if rapid.IntRange(0, 2).Draw(t, "has-"+name) == 0 {
				q.Set(name, rapid.SampledFrom(vals).Draw(t, name))
				nopts++
			}
		}
		opt("name", "n", "a b", "x&y=z")
		opt("layout", "balanced", "trickle")
		opt("chunker", "size-256", "size-1000")
		opt("raw-leaves", "true", "false")
		opt("wrap-with-directory", "true", "false")
		opt("local", "true", "false")
		opt("progress", "true", "false")
		opt("replication-min", "-1")
		opt("replication-max", "-1")
		opt("meta-k", "v")
		if rapid.IntRange(0, 2).Draw(t, "cidv1") == 0 {
			q.Set("cid-version", "1")
			opt("hash", "sha2-256", "sha2-512", "blake2b-256")
			nopts++
		}
		buffered := rapid.Bool().Draw(t, "buffered")
		if buffered {
			q.Set("stream-channels", "false")
		} else if rapid.Bool().Draw(t, "explicit-stream") {
			q.Set("stream-channels", "true")
		}
		switch kind {
		case "parser":
			x := rapid.SampledFrom([][2]string{{"layout", "zigzag"}, {"format", "zip"}, {"local", "perhaps"}, {"shard", "2"}, {"cid-version", "one"}, {"raw-leaves", "yes"}, {"stream-channels", "sometimes"}, {"replication-min", "abc"}, {"replication-max", "1.5"}, {"expire-in", "soon"}, {"wrap-with-directory", "da"}, {"hidden", "?"}, {"nocopy", "2"}, {"progress", "100%"}, {"recursive", "deep"}}).Draw(t, "bad")
			q.Set(x[0], x[1])
			invalid = "parser:" + x[0]
		case "semantic":
			x := rapid.SampledFrom([]string{"hash", "chunker", "car", "sha512v0", "broken-upload", "broken-upload"}).Draw(t, "bad")
			switch x {
			case "broken-upload":
				// a directory of three files whose upload breaks off inside the
				// last part (in its header block or in its content): not a
				// well-formed multipart body, whatever wrap-with-directory says
				tree := files.NewMapDirectory(map[string]files.Node{"d": files.NewMapDirectory(map[string]files.Node{
					"a.txt": files.NewBytesFile([]byte("first file")),
					"b.txt": files.NewBytesFile([]byte("second file")),
					"c.txt": files.NewBytesFile(append([]byte("third file "), content...)),
				})})
				mfr := files.NewMultiFileReader(tree, true)
				full, _ := ioutil.ReadAll(mfr)
				sep := []byte("\r\n--" + mfr.Boundary() + "\r\n")
				last := bytes.LastIndex(full, sep)
				if last < 0 {
					t.Fatalf("harness: no part separator")
				}
				hdrEnd := last + len(sep) + bytes.Index(full[last+len(sep):], []byte("\r\n\r\n"))
				cut := last + len(sep) + 12 // inside the header block
				if rapid.Bool().Draw(t, "cutInContent") {
					cut = hdrEnd + 4 + 5 // inside "third file ..."
				}
				brokenBody = full[:cut]
				brokenCT = "multipart/form-data; boundary=" + mfr.Boundary()
			case "hash":
				q.Set("hash", "nosuchhash")
			case "chunker":
				q.Set("chunker", "nosuchchunker")
			case "car":
				q.Set("format", "car")
				if len(content) == 0 {
					content = []byte("not a car")
				}
			case "sha512v0":
				q.Set("hash", "sha2-512")
				q.Set("cid-version", "0")
			}
			invalid = "semantic:" + x
		case "not-multipart":
			invalid = "not-multipart"
		}
		var body bytes.Buffer
		ctype := "text/plain"
		if brokenBody != nil {
			body.Write(brokenBody)
			ctype = brokenCT
		} else if kind != "not-multipart" {
			mw := multipart.NewWriter(&body)
			h := textproto.MIMEHeader{}
			h.Set("Content-Disposition", `form-data; name="file"; filename="f.bin"`)
			h.Set("Content-Type", "application/octet-stream")
			pw, _ := mw.CreatePart(h)
			pw.Write(content)
			mw.Close()
			ctype = mw.FormDataContentType()
		} else {
			body.Write(content)
		}
		req, err := http.NewRequest("POST", s.url+"/add?"+q.Encode(), bytes.NewReader(body.Bytes()))
		if err != nil {
			t.Fatalf("harness: %v", err)
		}
		req.Header.Set("Content-Type", ctype)
		setCred(req, cred)
		resp, err := httpc.Do(req)
		if err != nil {
			if ne, ok := err.(interface{ Timeout() bool }); (ok && ne.Timeout()) || strings.Contains(err.Error(), "too many open files") {
				// 20 s without response headers on a loaded machine, or the
				// process out of descriptors: nothing was observed
				t.Fatalf("VERIF-INFRA: request got no answer: %v", err)
			}
			t.Fatalf("request failed: %v", err)
		}
		rb, _ := ioutil.ReadAll(resp.Body)
		resp.Body.Close()
		trailer := resp.Trailer.Get("X-Stream-Error")
		calls := s.rec.Take()
		fail := func(format string, a ...interface{}) {
			t.Fatalf("%s\nrequest: POST /add?%s (%d content bytes, %s) cred=%s auth-configured=%v\nstatus %d trailer %q body %.300q\nrpc: %v", fmt.Sprintf(format, a...), q.Encode(), len(content), kind, cred, s.auth, resp.StatusCode, trailer, rb, callNames(calls))
		}
		var pins []*api.Pin
		for _, c := range calls {
			if c.Name == "Cluster.Pin" {
				pins = append(pins, c.Arg.(*api.Pin))
			}
		}
		classes := []string{"kind:" + kind, "cred:" + cred}
		if invalid != "" {
			classes = append(classes, invalid)
		}
		if buffered {
			classes = append(classes, "buffered")
		}
		// sequence of JSON objects
		objects := func() ([]map[string]interface{}, error) {
			dec := json.NewDecoder(bytes.NewReader(rb))
			var out []map[string]interface{}
			for {
				var v map[string]interface{}
				err := dec.Decode(&v)
				if err == io.EOF {
					return out, nil
				}
				if err != nil {
					return out, err
				}
				out = append(out, v)
			}
		}
		switch {
		case s.auth && !credOK(cred):
			classes = append(classes, "unauthorized")
			if resp.StatusCode != 401 {
				fail("no valid credentials but status is %d", resp.StatusCode)
			}
			if len(calls) != 0 {
				fail("no valid credentials but the cluster was called")
			}
		case invalid == "not-multipart" || strings.HasPrefix(invalid, "parser:"):
			if resp.StatusCode < 400 || resp.StatusCode > 499 {
				fail("malformed element (%s) but status is %d", invalid, resp.StatusCode)
			}
			if len(calls) != 0 {
				fail("malformed element (%s) but the cluster was called", invalid)
			}
			if err := oneJSON(rb); err != nil {
				fail("body: %v", err)
			}
		case strings.HasPrefix(invalid, "semantic:"):
			if len(pins) != 0 {
				fail("the add cannot be honoured (%s) but something was pinned", invalid)
			}
			if buffered || parserBuffered(q) {
				if resp.StatusCode < 400 {
					fail("the add cannot be honoured (%s) but the buffered answer has status %d", invalid, resp.StatusCode)
				}
				if err := oneJSON(rb); err != nil {
					fail("body: %v", err)
				}
			} else {
				if resp.StatusCode != 200 || trailer == "" {
					fail("the add cannot be honoured (%s): a streamed answer must carry the error in the X-Stream-Error trailer", invalid)
				}
				if _, err := objects(); err != nil {
					fail("streamed body is not a sequence of JSON objects: %v", err)
				}
			}
		default:
			if resp.StatusCode != 200 || trailer != "" {
				fail("valid add refused")
			}
			var last string
			if buffered {
				if err := oneJSON(rb); err != nil {
					fail("body: %v", err)
				}
				var arr []map[string]interface{}
				if err := json.Unmarshal(rb, &arr); err != nil || len(arr) == 0 {
					fail("buffered answer is not a non-empty JSON array: %v", err)
				}
				last, _ = arr[len(arr)-1]["cid"].(string)
				if last == "" {
					if m, ok := arr[len(arr)-1]["cid"].(map[string]interface{}); ok {
						last, _ = m["/"].(string)
					}
				}
			} else {
				objs, err := objects()
				if err != nil || len(objs) == 0 {
					fail("streamed answer is not a non-empty sequence of JSON objects: %v", err)
				}
				o := objs[len(objs)-1]
				last, _ = o["cid"].(string)
				if last == "" {
					if m, ok := o["cid"].(map[string]interface{}); ok {
						last, _ = m["/"].(string)
					}
				}
			}
			if len(pins) != 1 {
				fail("a valid add must pin exactly once, saw %d pins", len(pins))
			}
			if pins[0].Cid.String() != last {
				fail("pinned %s but the last reported CID is %q", pins[0].Cid, last)
			}
			if pins[0].Name != q.Get("name") {
				fail("pinned with name %q, %q was sent", pins[0].Name, q.Get("name"))
			}
			if q.Get("replication-min") == "-1" && pins[0].ReplicationFactorMin != -1 || q.Get("replication-max") == "-1" && pins[0].ReplicationFactorMax != -1 {
				fail("pinned with factors %d/%d", pins[0].ReplicationFactorMin, pins[0].ReplicationFactorMax)
			}
			if q.Get("meta-k") != "" && pins[0].Metadata["k"] != "v" {
				fail("metadata lost: %v", pins[0].Metadata)
			}
		}
		leg.Case(fmt.Sprintf("POST /add?%s len=%d %s cred=%s auth=%v", q.Encode(), len(content), kind, cred, s.auth), invalid != "" || buffered || nopts >= 3, classes...)
	})
}

// parserBuffered says whether the query asks for a buffered answer.
func parserBuffered(q url.Values) bool { return q.Get("stream-channels") == "false" }

const ruleRaw = "raw HTTP requests against four real API instances (with and without basic-auth credentials, with and without request tracing; two of them configured the way the daemon does it: restapi section as JSON with the credentials in it, LoadJSON, ApplyEnvVars): a route of the route table with valid or invalid path variables (CID v0/v1, truncated CID, text, peer ID, ipfs/ipns/ipld paths with sub-segments containing space, ?, #, %, unicode), each pin option present or absent with a valid or (one) invalid value, bodies for POST /peers, status filters, local flags; or an unknown path / wrong method; credentials (two users configured) none, wrong user, wrong password, unknown or known or empty user with an empty password, one user's name with the other's password, a garbage or non-basic Authorization header, right; oracle from the harness's own parse of what it sent: 401 and no RPC without valid credentials, 4xx and no RPC for any malformed element, otherwise exactly the named RPC with the CID/path and options sent; body is one JSON document; non-trivial = at least one option and (exactly one malformed element, or fully valid with >= 3 options); distinct by request line + credentials"

func TestRaw(t *testing.T) {
	leg := ev.L("raw-requests", ruleRaw)
	rapid.Check(t, func(t *rapid.T) {
		s := srvs[rapid.IntRange(0, 3).Draw(t, "server")]
		s.rec.Reset()
		cred := rapid.SampledFrom(credKinds).Draw(t, "cred")
		route := rapid.SampledFrom([]string{"pin", "pin", "pinpath", "unpin", "unpinpath", "status", "statusall", "recover", "recoverall", "allocation", "allocations", "peeradd", "peerrm", "metrics", "simple", "unknown", "wrongmethod"}).Draw(t, "route")
		method, p := "GET", "/"
		q := url.Values{}
		var body []byte
		malformed := ""
		expectCall := ""
		nopts := 0
		var check func(calls []fakes.RPCCall)
		goodCid := gen.CidN(8).Draw(t, "cid")
		cidStr := goodCid.String()
		badCid := rapid.IntRange(0, 4).Draw(t, "badcid") == 0
		if badCid {
			cidStr = rapid.SampledFrom([]string{"Qmfoo", cidStr[:len(cidStr)-3], "notacid", "bafy"}).Draw(t, "badcidv")
		}
		fail := func(format string, a ...interface{}) {
			t.Fatalf("%s\nrequest: %s %s?%s cred=%s auth-configured=%v", fmt.Sprintf(format, a...), method, p, q.Encode(), cred, s.auth)
		}
		segs := []string{"a", "sub dir", "x?y", "h#frag", "100%", "ünï", "a+b", "c&d=e"}
		switch route {
		case "pin", "unpin", "status", "recover", "allocation":
			method = map[string]string{"pin": "POST", "unpin": "DELETE", "status": "GET", "recover": "POST", "allocation": "GET"}[route]
			p = "/pins/" + url.PathEscape(cidStr)
			if route == "recover" {
				p += "/recover"
			}
			if route == "allocation" {
				p = "/allocations/" + url.PathEscape(cidStr)
			}
			if badCid {
				malformed = "cid"
			}
			o := drawOpts(t, route == "pin" || route == "unpin")
			if route == "pin" || route == "unpin" {
				q = o.q
				nopts = o.n
				if o.invalid != "" {
					if malformed == "" {
						malformed = "option " + o.invalid
						if kf.Open(KFOptionErr) {
							leg.Excl("invalid pin option on an otherwise valid request (" + KFOptionErr + ")")
							t.Skip("excluded")
						}
					} else {
						malformed = "several"
					}
				}
			}
			local := false
			if (route == "status" || route == "recover") && rapid.Bool().Draw(t, "local") {
				q.Set("local", "true")
				local = true
			}
			expectCall = map[string]string{"pin": "Cluster.Pin", "unpin": "Cluster.Unpin", "status": "Cluster.Status", "recover": "Cluster.Recover", "allocation": "Cluster.PinGet"}[route]
			if local {
				expectCall += "Local"
			}
			check = func(calls []fakes.RPCCall) {
				switch v := calls[0].Arg.(type) {
				case *api.Pin:
					if !v.Cid.Equals(goodCid) {
						fail("cluster received CID %s, sent %s", v.Cid, goodCid)
					}
					if route == "pin" {
						checkOpts(t, "POST /pins/{cid}", v.PinOptions, o)
						if v.Type != api.DataType {
							fail("pin type %v", v.Type)
						}
						if !kf.Open(KFDirectMode) {
							if v.MaxDepth != v.Mode.ToPinDepth() {
								fail("pin arrived with mode %v but max depth %d", v.Mode, v.MaxDepth)
							}
						} else if v.Mode == api.PinModeDirect {
							leg.Excl("depth of a mode=direct pin by CID not judged (" + KFDirectMode + ")")
						}
					}
				case cid.Cid:
					if !v.Equals(goodCid) {
						fail("cluster received CID %s, sent %s", v, goodCid)
					}
				default:
					fail("unexpected argument type %T", v)
				}
			}
		case "pinpath", "unpinpath":
			method = map[string]string{"pinpath": "POST", "unpinpath": "DELETE"}[route]
			kt := rapid.SampledFrom([]string{"ipfs", "ipfs", "ipns", "ipld"}).Draw(t, "keytype")
			first := cidStr
			if kt == "ipns" {
				first = rapid.SampledFrom([]string{"example.org", cidStr}).Draw(t, "ipnsname")
				badCid = false
			}
			parts := []string{first}
			for i := rapid.IntRange(0, 3).Draw(t, "nsegs"); i > 0; i-- {
				parts = append(parts, rapid.SampledFrom(segs).Draw(t, "seg"))
			}
			var esc []string
			for _, x := range parts {
				esc = append(esc, url.PathEscape(x))
			}
			p = "/pins/" + kt + "/" + strings.Join(esc, "/")
			if badCid {
				malformed = "path"
			}
			o := drawOpts(t, route == "pinpath")
			if route == "pinpath" {
				q = o.q
				nopts = o.n
				if o.invalid != "" {
					if malformed == "" {
						malformed = "option " + o.invalid
						if kf.Open(KFOptionErr) {
							leg.Excl("invalid pin option on an otherwise valid request (" + KFOptionErr + ")")
							t.Skip("excluded")
						}
					} else {
						malformed = "several"
					}
				}
			}
			expectCall = map[string]string{"pinpath": "Cluster.PinPath", "unpinpath": "Cluster.UnpinPath"}[route]
			wantPath, perr := gopath.ParsePath("/" + kt + "/" + strings.Join(parts, "/"))
			if perr != nil && malformed == "" {
				malformed = "path"
			}
			check = func(calls []fakes.RPCCall) {
				pp := calls[0].Arg.(*api.PinPath)
				if pp.Path != wantPath.String() {
					fail("cluster received path %q, sent %q", pp.Path, wantPath.String())
				}
				if route == "pinpath" {
					checkOpts(t, "POST /pins/{path}", pp.PinOptions, o)
				}
			}
		case "statusall", "recoverall":
			method = map[string]string{"statusall": "GET", "recoverall": "POST"}[route]
			p = map[string]string{"statusall": "/pins", "recoverall": "/pins/recover"}[route]
			local := rapid.Bool().Draw(t, "local")
			if local {
				q.Set("local", "true")
			}
			expectCall = map[string]string{"statusall": "Cluster.StatusAll", "recoverall": "Cluster.RecoverAll"}[route]
			if local {
				expectCall += "Local"
			}
			var flt api.TrackerStatus
			if route == "statusall" && rapid.Bool().Draw(t, "hasfilter") {
				if rapid.IntRange(0, 4).Draw(t, "badfilter") == 0 {
					q.Set("filter", "nosuchstatus")
					malformed = "filter"
				} else {
					flt = gen.Filter().Draw(t, "filter")
					if flt != 0 {
						q.Set("filter", flt.String())
						nopts = 1
					}
				}
			}
			check = func(calls []fakes.RPCCall) {
				if route == "statusall" {
					if got := calls[0].Arg.(api.TrackerStatus); got != flt {
						fail("cluster received filter %d (%s), sent %d (%s)", got, got, flt, flt)
					}
				}
			}
		case "allocations":
			p = "/allocations"
			expectCall = "Cluster.Pins"
			if rapid.Bool().Draw(t, "hasfilter") {
				f := rapid.SampledFrom([]string{"pin", "meta-pin", "pin,shard-pin", "all", "garbage"}).Draw(t, "tfilter")
				q.Set("filter", f)
				if f == "garbage" {
					malformed = "filter"
				}
			}
			check = func([]fakes.RPCCall) {}
		case "peeradd":
			method, p = "POST", "/peers"
			pid := gen.Peer().Draw(t, "pid")
			switch rapid.IntRange(0, 3).Draw(t, "bodykind") {
			case 0:
				body = []byte("{not json")
				malformed = "body"
			case 1:
				body = []byte(`{"peer_id":"notapeer"}`)
				malformed = "peer id"
			default:
				body, _ = json.Marshal(map[string]string{"peer_id": peer.Encode(pid)})
			}
			expectCall = "Cluster.PeerAdd"
			check = func(calls []fakes.RPCCall) {
				if calls[0].Arg.(peer.ID) != pid {
					fail("PeerAdd received another peer ID")
				}
			}
		case "peerrm":
			method = "DELETE"
			pid := gen.Peer().Draw(t, "pid")
			ps := peer.Encode(pid)
			if rapid.IntRange(0, 3).Draw(t, "badpid") == 0 {
				ps = "Qmnotapeer"
				malformed = "peer id"
			}
			p = "/peers/" + ps
			expectCall = "Cluster.PeerRemove"
			check = func(calls []fakes.RPCCall) {
				if calls[0].Arg.(peer.ID) != pid {
					fail("PeerRemove received another peer ID")
				}
			}
		case "metrics":
			name := rapid.SampledFrom([]string{"ping", "freespace", "numpin"}).Draw(t, "metric")
			p = "/monitor/metrics/" + name
			expectCall = "PeerMonitor.LatestMetrics"
			check = func(calls []fakes.RPCCall) {
				if calls[0].Arg.(string) != name {
					fail("metric name %q arrived as %q", name, calls[0].Arg)
				}
			}
		case "simple":
			x := rapid.SampledFrom([][3]string{{"GET", "/id", "Cluster.ID"}, {"GET", "/version", "Cluster.Version"}, {"GET", "/peers", "Cluster.Peers"}, {"POST", "/ipfs/gc", "Cluster.RepoGC"}, {"GET", "/health/graph", "Cluster.ConnectGraph"}, {"GET", "/health/alerts", "Cluster.Alerts"}, {"GET", "/monitor/metrics", "PeerMonitor.MetricNames"}}).Draw(t, "simple")
			method, p, expectCall = x[0], x[1], x[2]
			check = func([]fakes.RPCCall) {}
		case "unknown":
			method = rapid.SampledFrom([]string{"GET", "POST", "DELETE", "PUT"}).Draw(t, "method")
			p = rapid.SampledFrom([]string{"/nothing", "/pins/" + cidStr + "/extra/x", "/api/v0/id", "/peers/x/y", "/idx", "/pin/" + cidStr}).Draw(t, "upath")
			malformed = "unknown path"
		case "wrongmethod":
			x := rapid.SampledFrom([][2]string{{"PUT", "/pins/" + goodCid.String()}, {"DELETE", "/id"}, {"POST", "/version"}, {"PATCH", "/peers"}, {"PUT", "/add"}, {"GET", "/ipfs/gc"}, {"DELETE", "/pins"}}).Draw(t, "wm")
			method, p = x[0], x[1]
			malformed = "method"
		}
		u := s.url + p
		if len(q) > 0 {
			u += "?" + q.Encode()
		}
		req, err := http.NewRequest(method, u, bytes.NewReader(body))
		if err != nil {
			t.Fatalf("harness: %v", err)
		}
		setCred(req, cred)
		resp, err := httpc.Do(req)
		if err != nil {
			if ne, ok := err.(interface{ Timeout() bool }); (ok && ne.Timeout()) || strings.Contains(err.Error(), "too many open files") {
				// 20 s without response headers on a loaded machine, or the
				// process out of descriptors: nothing was observed
				t.Fatalf("VERIF-INFRA: request got no answer: %v", err)
			}
			t.Fatalf("request failed: %v", err)
		}
		rb, _ := ioutil.ReadAll(resp.Body)
		resp.Body.Close()
		calls := s.rec.Take()
		classes := []string{"route:" + route, "cred:" + cred}
		if len(rb) > 0 {
			if err := oneJSON(rb); err != nil {
				fail("response body is not a single JSON document (%v): %q\ncalls: %v", err, rb, callNames(calls))
			}
		}
		switch {
		case s.auth && !credOK(cred):
			classes = append(classes, "unauthorized")
			if resp.StatusCode != 401 {
				fail("no valid credentials but status is %d", resp.StatusCode)
			}
			if len(calls) != 0 {
				fail("no valid credentials but the cluster was called: %v", callNames(calls))
			}
		case malformed != "":
			classes = append(classes, "malformed")
			if resp.StatusCode >= 300 && resp.StatusCode < 400 {
				if len(calls) != 0 {
					fail("redirect with side effects: %v", callNames(calls))
				}
				break
			}
			if resp.StatusCode < 400 || resp.StatusCode >= 500 {
				fail("malformed %s but status is %d", malformed, resp.StatusCode)
			}
			if len(calls) != 0 {
				fail("malformed %s (status %d) but the cluster was called: %v", malformed, resp.StatusCode, callNames(calls))
			}
		default:
			if resp.StatusCode >= 300 && resp.StatusCode < 400 {
				classes = append(classes, "redirect")
				if len(calls) != 0 {
					fail("redirect with side effects: %v", callNames(calls))
				}
				break
			}
			classes = append(classes, "valid")
			if len(calls) != 1 || calls[0].Name != expectCall {
				fail("expected exactly one %s call, got %v (status %d body %q)", expectCall, callNames(calls), resp.StatusCode, rb)
			}
			if resp.StatusCode >= 400 {
				fail("valid request answered %d %q", resp.StatusCode, rb)
			}
			check(calls)
		}
		nt := nopts >= 1 && (malformed != "" && malformed != "several" || malformed == "" && nopts >= 3)
		leg.Case(fmt.Sprintf("%s %s?%s cred=%s auth=%v", method, p, q.Encode(), cred, s.auth), nt, classes...)
	})
}

// ---------- client library ----------

var (
	clientsMu sync.Mutex
	clients   = map[*server]client.Client{}
)

// newClient returns the client of a server: one per server for the whole
// run (a client per case leaves an idle keep-alive connection behind each
// time and runs the process out of file descriptors after ~15000 cases).
func newClient(s *server, t *rapid.T) client.Client {
	clientsMu.Lock()
	defer clientsMu.Unlock()
	if c := clients[s]; c != nil {
		return c
	}
	cfg := &client.Config{APIAddr: s.maddr, DisableKeepAlives: false}
	if s.auth {
		cfg.Username, cfg.Password = user, pass
	}
	c, err := client.NewDefaultClient(cfg)
	if err != nil {
		t.Fatalf("client: %v", err)
	}
	clients[s] = c
	return c
}

const ruleClient = "every method of the bundled client (ID, Peers, PeerAdd, PeerRm, Pin, Unpin, PinPath, UnpinPath, Allocations, Allocation, Status, StatusAll, Recover, RecoverAll, Alerts, Version, GetConnectGraph, Metrics, MetricNames, RepoGC) with generated arguments (all pin options, paths with special characters, unions of status filters, pin-type filters) against the same two servers; the recording cluster answers a generated value or an error; oracle: the cluster received the arguments the client was given and the client returned what the cluster answered (or its error); non-trivial = the call carries a non-trivial argument (options, path with a special character, union filter) or a non-empty answer; distinct by method + arguments"

func TestClient(t *testing.T) {
	leg := ev.L("client-library", ruleClient)
	ctx := context.Background()
	rapid.Check(t, func(t *rapid.T) {
		s := srvs[rapid.IntRange(0, 3).Draw(t, "server")]
		s.rec.Reset()
		c := newClient(s, t)
		method := rapid.SampledFrom([]string{"ID", "Peers", "PeerAdd", "PeerRm", "Pin", "Pin", "Unpin", "PinPath", "PinPath", "UnpinPath", "Allocations", "Allocation", "Status", "StatusAll", "StatusAll", "Recover", "RecoverAll", "Alerts", "Version", "GetConnectGraph", "Metrics", "MetricNames", "RepoGC"}).Draw(t, "method")
		fails := rapid.IntRange(0, 6).Draw(t, "fails") == 0
		ci := gen.CidN(8).Draw(t, "cid")
		local := rapid.Bool().Draw(t, "local")
		desc := method
		nontrivial := false
		var got interface{}
		var err error
		var want interface{}
		var expectCall string
		var checkArg func(arg interface{})
		respond := func(name string, v interface{}) {
			expectCall = name
			if fails {
				s.rec.Set(name, func(interface{}) (interface{}, error) { return nil, fmt.Errorf("injected: %s failed", name) })
			} else {
				s.rec.Set(name, func(interface{}) (interface{}, error) { return v, nil })
			}
		}
		fail := func(format string, a ...interface{}) {
			t.Fatalf("%s\ncall: %s (server auth=%v)\nrpc calls: %v", fmt.Sprintf(format, a...), desc, s.auth, callNames(s.rec.Take()))
		}
		optCfg := gen.Full
		optCfg.UnixZero = false
		switch method {
		case "ID":
			v := gen.ID().Draw(t, "v")
			want = v
			respond("Cluster.ID", v)
			got, err = c.ID(ctx)
		case "Peers":
			v := rapid.SliceOfN(gen.ID(), 0, 3).Draw(t, "v")
			want = v
			respond("Cluster.Peers", v)
			got, err = c.Peers(ctx)
			nontrivial = len(v) > 0
		case "PeerAdd":
			pid := gen.Peer().Draw(t, "pid")
			v := gen.ID().Draw(t, "v")
			want = v
			respond("Cluster.PeerAdd", v)
			checkArg = func(a interface{}) {
				if a.(peer.ID) != pid {
					fail("PeerAdd delivered another peer")
				}
			}
			got, err = c.PeerAdd(ctx, pid)
			nontrivial = true
		case "PeerRm":
			pid := gen.Peer().Draw(t, "pid")
			respond("Cluster.PeerRemove", nil)
			checkArg = func(a interface{}) {
				if a.(peer.ID) != pid {
					fail("PeerRm delivered another peer")
				}
			}
			err = c.PeerRm(ctx, pid)
			nontrivial = true
		case "Pin":
			if rapid.IntRange(0, 5).Draw(t, "serverRefuses") == 0 {
				// a request the client can send but the server must refuse
				// with 400 (an origin without a peer ID): the caller has to be
				// told, and nothing may be executed
				bad, _ := ma.NewMultiaddr(rapid.SampledFrom([]string{"/ip4/1.2.3.4/tcp/4001", "/dns4/example.org/tcp/4001"}).Draw(t, "badorigin"))
				o := api.PinOptions{Name: "refused", Origins: []ma.Multiaddr{bad}}
				respond("Cluster.Pin", api.PinCid(ci))
				_, err = c.Pin(ctx, ci, o)
				if calls := s.rec.Take(); len(calls) != 0 {
					t.Fatalf("a pin request the server must refuse (origin %s without peer ID) was executed: %v", bad, callNames(calls))
				}
				if err == nil {
					t.Fatalf("the server refuses a pin with origin %s (400) but the client reported success", bad)
				}
				leg.Case(fmt.Sprintf("Pin(%s) with origin %s: refused by the server", ci, bad), true, "method:Pin", "server-refused")
				return
			}
			o := gen.Options(optCfg).Draw(t, "opts")
			v := gen.Pin(gen.Full).Draw(t, "answer")
			want = v
			respond("Cluster.Pin", v)
			desc = fmt.Sprintf("Pin(%s, %s)", ci, cmpx.OptsStr(o, qnorm))
			checkArg = func(a interface{}) {
				p := a.(*api.Pin)
				if !p.Cid.Equals(ci) {
					fail("Pin delivered CID %s, given %s", p.Cid, ci)
				}
				if x, y := cmpx.OptsStr(o, qnorm), cmpx.OptsStr(p.PinOptions, qnorm); x != y {
					fail("Pin delivered different options: %s", cmpx.Diff(x, y))
				}
				if !kf.Open(KFDirectMode) && p.MaxDepth != p.Mode.ToPinDepth() {
					fail("Pin with mode %v arrived with max depth %d", p.Mode, p.MaxDepth)
				}
			}
			got, err = c.Pin(ctx, ci, o)
			nontrivial = true
		case "Unpin":
			v := gen.Pin(gen.Full).Draw(t, "answer")
			want = v
			respond("Cluster.Unpin", v)
			checkArg = func(a interface{}) {
				if !a.(*api.Pin).Cid.Equals(ci) {
					fail("Unpin delivered another CID")
				}
			}
			got, err = c.Unpin(ctx, ci)
		case "PinPath", "UnpinPath":
			segs := []string{"a", "sub dir", "ünï"}
			if !kf.Open(KFPathEscape) {
				segs = append(segs, "x?y", "h#frag", "100%", "a+b", "c&d=e", "%41")
			} else {
				leg.Excl("path segments with ? # % not generated (" + KFPathEscape + ")")
			}
			kt := rapid.SampledFrom([]string{"ipfs", "ipns", "ipld"}).Draw(t, "kt")
			first := ci.String()
			if kt == "ipns" {
				first = "example.org"
			}
			parts := []string{first}
			for i := rapid.IntRange(0, 3).Draw(t, "nsegs"); i > 0; i-- {
				x := rapid.SampledFrom(segs).Draw(t, "seg")
				parts = append(parts, x)
				if strings.ContainsAny(x, " ?#%+&ü") {
					nontrivial = true
				}
			}
			pth := "/" + kt + "/" + strings.Join(parts, "/")
			wantPath, _ := gopath.ParsePath(pth)
			v := gen.Pin(gen.Full).Draw(t, "answer")
			want = v
			var o api.PinOptions
			if method == "PinPath" {
				o = gen.Options(optCfg).Draw(t, "opts")
				respond("Cluster.PinPath", v)
			} else {
				respond("Cluster.UnpinPath", v)
			}
			desc = fmt.Sprintf("%s(%q)", method, pth)
			checkArg = func(a interface{}) {
				pp := a.(*api.PinPath)
				if pp.Path != wantPath.String() {
					fail("%s delivered path %q, given %q", method, pp.Path, wantPath.String())
				}
				if method == "PinPath" {
					if x, y := cmpx.OptsStr(o, qnorm), cmpx.OptsStr(pp.PinOptions, qnorm); x != y {
						fail("PinPath delivered different options: %s", cmpx.Diff(x, y))
					}
				}
			}
			if method == "PinPath" {
				got, err = c.PinPath(ctx, pth, o)
			} else {
				got, err = c.UnpinPath(ctx, pth)
			}
		case "Allocations":
			pins := rapid.SliceOfN(gen.Pin(gen.Full), 0, 5).Draw(t, "pins")
			f := rapid.SampledFrom([]api.PinType{api.AllType, api.DataType, api.MetaType, api.DataType | api.ShardType, api.ClusterDAGType}).Draw(t, "tfilter")
			var wl []*api.Pin
			for _, p := range pins {
				if f&p.Type > 0 {
					wl = append(wl, p)
				}
			}
			want = wl
			respond("Cluster.Pins", pins)
			desc = fmt.Sprintf("Allocations(%d)", f)
			got, err = c.Allocations(ctx, f)
			nontrivial = len(pins) > 0 && f != api.AllType
		case "Allocation":
			v := gen.Pin(gen.Full).Draw(t, "answer")
			want = v
			respond("Cluster.PinGet", v)
			checkArg = func(a interface{}) {
				if !a.(cid.Cid).Equals(ci) {
					fail("Allocation delivered another CID")
				}
			}
			got, err = c.Allocation(ctx, ci)
		case "Status", "Recover":
			name := "Cluster." + method
			if local {
				pi := gen.PinInfo().Draw(t, "pi")
				want = pi.ToGlobal()
				respond(name+"Local", pi)
			} else {
				g := gen.GlobalPinInfo().Draw(t, "g")
				want = g
				respond(name, g)
			}
			checkArg = func(a interface{}) {
				if !a.(cid.Cid).Equals(ci) {
					fail("%s delivered another CID", method)
				}
			}
			if method == "Status" {
				got, err = c.Status(ctx, ci, local)
			} else {
				got, err = c.Recover(ctx, ci, local)
			}
			nontrivial = true
		case "StatusAll", "RecoverAll":
			name := "Cluster." + method
			flt := gen.Filter().Draw(t, "filter")
			if local {
				pis := rapid.SliceOfN(gen.PinInfo(), 0, 3).Draw(t, "pis")
				var gl []*api.GlobalPinInfo
				for _, pi := range pis {
					gl = append(gl, pi.ToGlobal())
				}
				want = gl
				respond(name+"Local", pis)
			} else {
				gl := rapid.SliceOfN(gen.GlobalPinInfo(), 0, 3).Draw(t, "gl")
				want = gl
				respond(name, gl)
			}
			if method == "StatusAll" {
				desc = fmt.Sprintf("StatusAll(filter=%d %q, local=%v)", flt, flt.String(), local)
				checkArg = func(a interface{}) {
					if a.(api.TrackerStatus) != flt {
						fail("StatusAll delivered filter %d (%s), given %d (%s)", a, a, flt, flt)
					}
				}
				got, err = c.StatusAll(ctx, flt, local)
				nontrivial = flt != 0
			} else {
				got, err = c.RecoverAll(ctx, local)
			}
		case "Alerts":
			v := rapid.SliceOfN(gen.Alert(), 0, 3).Draw(t, "v")
			var w []*api.Alert
			var resp []api.Alert
			for _, a := range v {
				w = append(w, a)
				resp = append(resp, *a)
			}
			want = w
			respond("Cluster.Alerts", resp)
			got, err = c.Alerts(ctx)
			nontrivial = len(v) > 0
		case "Version":
			v := &api.Version{Version: "0.14.0-verif"}
			want = v
			respond("Cluster.Version", v)
			got, err = c.Version(ctx)
		case "GetConnectGraph":
			v := gen.ConnectGraph().Draw(t, "v")
			want = v
			respond("Cluster.ConnectGraph", v)
			got, err = c.GetConnectGraph(ctx)
			nontrivial = true
		case "Metrics":
			name := rapid.SampledFrom([]string{"ping", "freespace", "numpin"}).Draw(t, "name")
			v := rapid.SliceOfN(gen.Metric(), 0, 3).Draw(t, "v")
			want = v
			respond("PeerMonitor.LatestMetrics", v)
			checkArg = func(a interface{}) {
				if a.(string) != name {
					fail("Metrics delivered name %q, given %q", a, name)
				}
			}
			got, err = c.Metrics(ctx, name)
			nontrivial = len(v) > 0
		case "MetricNames":
			v := []string{"ping", "freespace"}
			want = v
			respond("PeerMonitor.MetricNames", v)
			got, err = c.MetricNames(ctx)
		case "RepoGC":
			if local {
				r := gen.RepoGC().Draw(t, "r")
				want = &api.GlobalRepoGC{PeerMap: map[string]*api.RepoGC{peer.Encode(r.Peer): r}}
				respond("Cluster.RepoGCLocal", r)
			} else {
				g := gen.GlobalRepoGC().Draw(t, "g")
				want = g
				respond("Cluster.RepoGC", g)
			}
			got, err = c.RepoGC(ctx, local)
			nontrivial = true
		}
		calls := s.rec.Take()
		if len(calls) != 1 || calls[0].Name != expectCall {
			t.Fatalf("expected exactly one %s call, the cluster saw %v (client error: %v)\ncall: %s", expectCall, callNames(calls), err, desc)
		}
		if checkArg != nil {
			checkArg(calls[0].Arg)
		}
		if fails {
			if err == nil {
				t.Fatalf("the cluster answered an error but the client returned none\ncall: %s", desc)
			}
			if !strings.Contains(err.Error(), "injected") {
				t.Fatalf("the client's error %q does not carry the server's message\ncall: %s", err, desc)
			}
		} else {
			if err != nil {
				t.Fatalf("client returned an error for a successful call: %v\ncall: %s", err, desc)
			}
			if want != nil {
				if a, b := cmpx.Canon(want), cmpx.Canon(got); a != b {
					t.Fatalf("client returned a value different from the server's answer: %s\ncall: %s", cmpx.Diff(a, b), desc)
				}
			}
		}
		leg.Case(desc+fmt.Sprintf(" fails=%v auth=%v", fails, s.auth), nontrivial, "method:"+method)
	})
}
