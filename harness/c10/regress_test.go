package c10

import (
	"context"
	"testing"
	"time"

	"verifharness/internal/cmpx"
	"verifharness/internal/fakes"
	"verifharness/internal/gen"

	ipfscluster "github.com/ipfs/ipfs-cluster"
	"github.com/ipfs/ipfs-cluster/api"
)

// A pin created by pin-update (it records its source) held by a removed peer
// must be re-homed like any other pin: new healthy holder, failed peer gone,
// options (including the recorded source) preserved.
func TestRegressRepinOfUpdatedPin(t *testing.T) {
	shared := fakes.NewSharedState()
	members := gen.Peers[:3]
	shared.SetPeers(members)
	f := fakes.NewCluster(fakes.ClusterOpts{Key: gen.PeerKeys[0], Shared: shared, Mutate: func(cfg *ipfscluster.Config) { cfg.DisableRepinning = false }})
	defer f.Close()
	var ms []*api.Metric
	for _, p := range members {
		ms = append(ms, &api.Metric{Name: "boot", Peer: p, Value: "1", Valid: true, Expire: time.Now().Add(time.Hour).UnixNano()})
	}
	f.Mon.Set("boot", ms)
	src := api.PinCid(gen.Cids[0])
	src.ReplicationFactorMin, src.ReplicationFactorMax = -1, -1
	src.Name = "source"
	shared.Put(src)
	p := api.PinCid(gen.Cids[1])
	p.ReplicationFactorMin, p.ReplicationFactorMax = 1, 1
	p.Name = "updated"
	p.PinUpdate = gen.Cids[0]
	p.Allocations = gen.Peers[1:2]
	shared.Put(p)
	if err := f.C.PeerRemove(context.Background(), gen.Peers[1]); err != nil {
		t.Fatal(err)
	}
	got, err := f.C.PinGet(context.Background(), gen.Cids[1])
	if err != nil {
		t.Fatal(err)
	}
	if len(got.Allocations) != 1 || got.Allocations[0] == gen.Peers[1] {
		t.Fatalf("pin was not re-homed away from the removed peer: %v", got.Allocations)
	}
	n := cmpx.Norm{DropUserAllocs: true, ExpirySeconds: true, ModeFromDepth: true, DropAllocs: true}
	if a, b := cmpx.PinStr(p, n), cmpx.PinStr(got, n); a != b {
		t.Fatalf("options changed while re-homing: %s", cmpx.Diff(a, b))
	}
}
