// Package c10: peer failure or removal re-homes under-replicated pins once
// and drops none; expired pins are unpinned by exactly one peer.
package c10

import (
	"context"
	"fmt"
	"os"
	"sort"
	"strings"
	"testing"
	"time"

	"verifharness/internal/cmpx"
	"verifharness/internal/ev"
	"verifharness/internal/fakes"
	"verifharness/internal/gen"
	"verifharness/internal/kf"

	cid "github.com/ipfs/go-cid"
	ipfscluster "github.com/ipfs/ipfs-cluster"
	"github.com/ipfs/ipfs-cluster/api"
	peer "github.com/libp2p/go-libp2p-core/peer"
	"pgregory.net/rapid"
)

func TestMain(m *testing.M) {
	code := m.Run()
	ev.Flush()
	os.Exit(code)
}

// KFRepinUpdate: a pin that records an update source is routed to
// PinUpdate() again when it is re-pinned away from a failed peer.
const KFRepinUpdate = "C10-repin-of-updated-pin"

func pidx(p peer.ID) int {
	for i, q := range gen.Peers {
		if q == p {
			return i
		}
	}
	return -1
}

func plist(ps []peer.ID) string {
	var s []string
	for _, p := range ps {
		s = append(s, fmt.Sprintf("P%d", pidx(p)))
	}
	sort.Strings(s)
	return "[" + strings.Join(s, ",") + "]"
}

func has(l []peer.ID, p peer.ID) bool {
	for _, q := range l {
		if q == p {
			return true
		}
	}
	return false
}

type inst struct {
	f        *fakes.ClusterFixture
	disabled bool
	follower bool
}

type tcase struct {
	n        int // members are gen.Peers[:n]
	failed   peer.ID
	healthy  map[peer.ID]bool // survivors (and possibly the failed peer) with a valid metric
	disabled []bool
	follower []bool
	pins     []*api.Pin
	mode     string // alert | remove | expiry
	remover  int
	viaJSON  bool // the peers' configuration went through ToJSON / LoadJSON / ApplyEnvVars, as the daemon's does
}

var optNorm = cmpx.Norm{DropUserAllocs: true, ExpirySeconds: true, ModeFromDepth: true, DropAllocs: true}
var fullNorm = cmpx.Norm{DropUserAllocs: true, ExpirySeconds: true, ModeFromDepth: true, SortAllocs: true}

func (c *tcase) String() string {
	var sb strings.Builder
	fmt.Fprintf(&sb, "mode=%s members=%d failed=P%d remover=%d viaJSON=%v healthy=", c.mode, c.n, pidx(c.failed), c.remover, c.viaJSON)
	var h []peer.ID
	for p, ok := range c.healthy {
		if ok {
			h = append(h, p)
		}
	}
	sb.WriteString(plist(h))
	fmt.Fprintf(&sb, " disabled=%v follower=%v pins:", c.disabled, c.follower)
	for _, p := range c.pins {
		fmt.Fprintf(&sb, " {%s %s %d/%d allocs=%s upd=%v exp=%v name=%q}", p.Cid, p.Type, p.ReplicationFactorMin, p.ReplicationFactorMax, plist(p.Allocations), p.PinUpdate.Defined(), !p.ExpireAt.IsZero(), p.Name)
	}
	return sb.String()
}

func drawCase(t *rapid.T) *tcase {
	c := &tcase{healthy: map[peer.ID]bool{}}
	c.mode = rapid.SampledFrom([]string{"alert", "alert", "remove", "expiry"}).Draw(t, "mode")
	c.n = rapid.IntRange(1, 8).Draw(t, "members")
	members := gen.Peers[:c.n]
	c.failed = members[rapid.IntRange(0, c.n-1).Draw(t, "failed")]
	c.remover = rapid.IntRange(0, c.n-1).Draw(t, "remover")
	c.viaJSON = rapid.Bool().Draw(t, "configViaJSON")
	uniform := rapid.IntRange(0, 2).Draw(t, "uniform") != 0
	for i := 0; i < c.n; i++ {
		d, f := false, false
		if !uniform {
			d = rapid.IntRange(0, 3).Draw(t, "disabled") == 0
			f = rapid.IntRange(0, 4).Draw(t, "follower") == 0
		}
		c.disabled = append(c.disabled, d)
		c.follower = append(c.follower, f)
	}
	for _, p := range members {
		c.healthy[p] = rapid.IntRange(0, 4).Draw(t, "healthy") != 0
	}
	if c.mode == "alert" {
		c.healthy[c.failed] = false
	}
	npins := rapid.IntRange(1, 6).Draw(t, "npins")
	seen := map[string]bool{}
	for i := 0; i < npins; i++ {
		ci := gen.CidN(8).Draw(t, "cid")
		if seen[ci.String()] {
			continue
		}
		seen[ci.String()] = true
		cfg := gen.Full
		cfg.UnixZero = false
		cfg.UserAllocs = false
		cfg.ZeroFactors = false
		cfg.NCids = 10
		cfg.PinUpdate = !kf.Open(KFRepinUpdate)
		o := gen.Options(cfg).Draw(t, "opts")
		if o.PinUpdate.Equals(ci) {
			o.PinUpdate = cid.Undef
		}
		p := api.PinWithOpts(ci, o)
		if rapid.IntRange(0, 5).Draw(t, "shard") == 0 {
			p.Type = api.ShardType
			p.MaxDepth = 1
			p.Mode = api.PinModeRecursive
		}
		// allocations over members and ex-members, biased to include the failed peer
		allocs := gen.PeerSubset(c.n+2, 4).Draw(t, "allocs")
		if rapid.Bool().Draw(t, "onfailed") && !has(allocs, c.failed) {
			allocs = append(allocs, c.failed)
		}
		if p.IsPinEverywhere() {
			allocs = nil
		} else if len(allocs) > p.ReplicationFactorMax {
			// a stored pin never has more allocations than its maximum
			keep := allocs[:0:0]
			if has(allocs, c.failed) {
				keep = append(keep, c.failed)
			}
			for _, a := range allocs {
				if len(keep) < p.ReplicationFactorMax && a != c.failed {
					keep = append(keep, a)
				}
			}
			allocs = keep
		}
		p.Allocations = allocs
		if c.mode == "expiry" {
			// shard and cluster-DAG entries of a sharded add carry the expiry
			// too; they cannot be unpinned directly (the sweep's Unpin fails for
			// them) and are kept in one case out of three
			if p.Type == api.DataType || rapid.IntRange(0, 2).Draw(t, "keepType") != 0 {
				p.Type = api.DataType
				p.Reference = nil
				p.MaxDepth = p.Mode.ToPinDepth()
			}
			switch rapid.IntRange(0, 2).Draw(t, "exp") {
			case 0:
				p.ExpireAt = time.Time{}
			case 1:
				p.ExpireAt = time.Unix(time.Now().Add(-time.Hour).Unix(), 0)
			default:
				p.ExpireAt = time.Unix(time.Now().Add(time.Hour).Unix(), 0)
			}
		}
		c.pins = append(c.pins, p)
	}
	return c
}

func waitFor(what string, cond func() bool) bool {
	deadline := time.Now().Add(30 * time.Second)
	for !cond() {
		if time.Now().After(deadline) {
			return false
		}
		time.Sleep(200 * time.Microsecond)
	}
	return true
}

func hasAlert(f *fakes.ClusterFixture, name string) bool {
	for _, a := range f.C.Alerts() {
		if a.Name == name {
			return true
		}
	}
	return false
}

const rule = "case = members (1-8 real Cluster instances sharing one pinset and peerset) x failing/removed peer x per-survivor metric validity x configuration built in Go or passed through ToJSON / LoadJSON / ApplyEnvVars as the daemon does x per-instance re-pinning disabled / follower (2/3 of cases uniform: all enabled) x pinset of 1-6 pins (allocations over members and ex-members, factors, all options, shard-type entries, pins recording an update source) x mode: ping alert delivered to every survivor from the same initial state, PeerRemove at one member, or StateSync expiry sweep at every member; non-trivial = the failed peer holds a pin that falls below its minimum and there are >= 2 survivors (expiry: an expired pin and >= 2 members); distinct by canonical rendering"

func TestRehome(t *testing.T) {
	leg := ev.L("rehome", rule)
	ctx := context.Background()
	rapid.Check(t, func(t *rapid.T) {
		c := drawCase(t)
		if kf.Open(KFRepinUpdate) {
			leg.Excl("pins recording an update source not generated (" + KFRepinUpdate + ")")
		}
		members := gen.Peers[:c.n]
		shared := fakes.NewSharedState()
		shared.SetPeers(members)
		var insts []*inst
		for i := 0; i < c.n; i++ {
			i := i
			f := fakes.NewCluster(fakes.ClusterOpts{Key: gen.PeerKeys[i], Shared: shared, ThroughJSON: c.viaJSON, Mutate: func(cfg *ipfscluster.Config) {
				cfg.DisableRepinning = c.disabled[i]
				cfg.FollowerMode = c.follower[i]
				cfg.ReplicationFactorMin, cfg.ReplicationFactorMax = -1, -1
			}})
			var ms []*api.Metric
			for _, p := range members {
				if c.healthy[p] {
					ms = append(ms, &api.Metric{Name: "boot", Peer: p, Value: fmt.Sprintf("%d", pidx(p)%3), Valid: true, Expire: time.Now().Add(time.Hour).UnixNano()})
				}
			}
			f.Mon.Set("boot", ms)
			insts = append(insts, &inst{f: f, disabled: c.disabled[i], follower: c.follower[i]})
		}
		defer func() {
			for _, in := range insts {
				in.f.Close()
			}
		}()
		restore := func() {
			shared.Reset()
			for _, p := range c.pins {
				shared.Put(fakes.CopyPin(p))
			}
		}
		restore()
		initial := map[string]*api.Pin{}
		for _, p := range shared.Pins() {
			initial[p.Cid.String()] = p
		}

		// actors[cid] = instances that changed or re-logged the pin
		pinActors := map[string][]int{}
		unpinActors := map[string][]int{}
		results := map[string]map[int]*api.Pin{}
		record := func(i int) {
			for _, l := range shared.TakeLog() {
				k := l.Pin.Cid.String()
				if l.Unpin {
					unpinActors[k] = append(unpinActors[k], i)
				} else {
					pinActors[k] = append(pinActors[k], i)
					if results[k] == nil {
						results[k] = map[int]*api.Pin{}
					}
				}
			}
			for _, p := range shared.Pins() {
				k := p.Cid.String()
				if results[k] != nil {
					if _, acted := results[k][i]; !acted && containsInt(pinActors[k], i) {
						results[k][i] = p
					}
				}
			}
			// anything else must be untouched
			now := map[string]*api.Pin{}
			for _, p := range shared.Pins() {
				now[p.Cid.String()] = p
			}
			for k, p0 := range initial {
				p1 := now[k]
				if p1 == nil {
					if c.mode == "expiry" {
						continue
					}
					t.Fatalf("pin %s was removed from the pinset by instance %d\ncase: %s", k, i, c)
				}
				if !containsInt(pinActors[k], i) {
					if a, b := cmpx.PinStr(p0, fullNorm), cmpx.PinStr(p1, fullNorm); a != b {
						t.Fatalf("pin changed without a logged operation: %s", cmpx.Diff(a, b))
					}
				}
			}
		}

		switch c.mode {
		case "alert":
			for i, in := range insts {
				if in.f.ID == c.failed {
					continue
				}
				restore()
				in.f.Mon.AlertCh <- &api.Alert{Metric: api.Metric{Name: "ping", Peer: c.failed}, TriggeredAt: time.Now()}
				in.f.Mon.AlertCh <- &api.Alert{Metric: api.Metric{Name: "sentinel", Peer: c.failed}, TriggeredAt: time.Now()}
				ok := waitFor("alert handled", func() bool {
					switch {
					case in.follower:
						return len(in.f.Mon.AlertCh) == 0
					case in.disabled:
						return hasAlert(in.f, "ping")
					default:
						return hasAlert(in.f, "sentinel")
					}
				})
				if !ok {
					t.Fatalf("instance %d did not finish handling the alert within 30s (follower=%v disabled=%v)\ncase: %s", i, in.follower, in.disabled, c)
				}
				if in.disabled {
					time.Sleep(2 * time.Millisecond) // the handler returns right after recording
				}
				record(i)
			}
		case "remove":
			restore()
			if err := insts[c.remover].f.C.PeerRemove(ctx, c.failed); err != nil {
				t.Fatalf("PeerRemove: %v", err)
			}
			record(c.remover)
		case "expiry":
			for i, in := range insts {
				restore()
				if err := in.f.C.StateSync(ctx); err != nil {
					t.Fatalf("StateSync: %v", err)
				}
				record(i)
			}
		}

		// judge
		uniform := true
		for i := range insts {
			if c.disabled[i] || c.follower[i] {
				uniform = false
			}
		}
		survivors := 0
		for _, p := range members {
			if p != c.failed {
				survivors++
			}
		}
		nontrivial := false
		classes := []string{"mode:" + c.mode}
		if uniform {
			classes = append(classes, "uniform")
		}
		if c.mode != "expiry" {
			for k, a := range unpinActors {
				t.Fatalf("pin %s was unpinned by instance(s) %v while re-homing\ncase: %s", k, a, c)
			}
		}
		for _, p := range c.pins {
			k := p.Cid.String()
			p0 := initial[k]
			actors := uniq(pinActors[k])
			switch c.mode {
			case "expiry":
				if len(actors) != 0 {
					t.Fatalf("the expiry sweep re-pinned %s\ncase: %s", k, c)
				}
				un := uniq(unpinActors[k])
				expired := !p.ExpireAt.IsZero() && p.ExpireAt.Before(time.Now())
				if !expired && len(un) > 0 {
					t.Fatalf("unexpired pin %s was unpinned by instance(s) %v\ncase: %s", k, un, c)
				}
				for _, i := range un {
					if c.follower[i] {
						t.Fatalf("follower instance %d unpinned expired pin %s\ncase: %s", i, k, c)
					}
				}
				if expired && p.Type != api.DataType {
					// cannot be unpinned on its own; the sweep must get past it
					classes = append(classes, "expired-undeletable")
					continue
				}
				if expired {
					classes = append(classes, "expired-pin")
					nofollowers := true
					for i := range insts {
						if c.follower[i] {
							nofollowers = false
						}
					}
					if nofollowers && len(un) != 1 {
						t.Fatalf("expired pin %s was unpinned by %d members %v, want exactly one\ncase: %s", k, len(un), un, c)
					}
					if len(un) > 1 {
						t.Fatalf("expired pin %s was unpinned by several members %v\ncase: %s", k, un, c)
					}
					if c.n >= 2 {
						nontrivial = true
					}
				}
				continue
			}
			onFailed := has(p0.Allocations, c.failed)
			if !onFailed {
				if len(actors) > 0 {
					t.Fatalf("pin %s is not allocated to the failed peer but was re-pinned by %v\ncase: %s", k, actors, c)
				}
				continue
			}
			classes = append(classes, "held-by-failed")
			min, max := p0.ReplicationFactorMin, p0.ReplicationFactorMax
			var curH []peer.ID
			for _, a := range p0.Allocations {
				if a != c.failed && c.healthy[a] && has(members, a) {
					curH = append(curH, a)
				}
			}
			cand := 0
			for _, m := range members {
				if m != c.failed && c.healthy[m] && !has(p0.Allocations, m) {
					cand++
				}
			}
			under := len(curH) < min
			for _, i := range actors {
				if c.follower[i] || c.disabled[i] {
					t.Fatalf("instance %d (follower=%v, re-pinning disabled=%v) re-pinned %s\ncase: %s", i, c.follower[i], c.disabled[i], k, c)
				}
				got := results[k][i]
				if got == nil {
					t.Fatalf("harness: no result for %s by %d", k, i)
				}
				if a, b := cmpx.PinStr(p0, optNorm), cmpx.PinStr(got, optNorm); a != b {
					t.Fatalf("re-homing changed the options of %s: %s\ncase: %s", k, cmpx.Diff(a, b), c)
				}
				if !under {
					if a, b := cmpx.PinStr(p0, fullNorm), cmpx.PinStr(got, fullNorm); a != b {
						t.Fatalf("pin %s still has %d >= min %d healthy holders but was changed: %s\ncase: %s", k, len(curH), min, cmpx.Diff(a, b), c)
					}
					continue
				}
				// under-replicated and changed: validity of the new allocation
				seen := map[peer.ID]bool{}
				nh := 0
				for _, a := range got.Allocations {
					if seen[a] {
						t.Fatalf("re-homed %s lists a peer twice: %s\ncase: %s", k, plist(got.Allocations), c)
					}
					seen[a] = true
					if a == c.failed {
						t.Fatalf("re-homed %s still lists the failed peer: %s\ncase: %s", k, plist(got.Allocations), c)
					}
					if c.healthy[a] && has(members, a) {
						nh++
					} else if !has(p0.Allocations, a) {
						t.Fatalf("re-homed %s adds a peer without a valid metric: %s\ncase: %s", k, plist(got.Allocations), c)
					}
				}
				if nh < min || nh > max {
					t.Fatalf("re-homed %s has %d healthy holders, want %d..%d: %s\ncase: %s", k, nh, min, max, plist(got.Allocations), c)
				}
				for _, a := range curH {
					if !seen[a] {
						t.Fatalf("re-homing %s dropped healthy holder P%d: %s\ncase: %s", k, pidx(a), plist(got.Allocations), c)
					}
				}
			}
			if under {
				classes = append(classes, "under-replicated")
				reachable := len(curH)+cand >= min
				switch c.mode {
				case "alert":
					if len(actors) > 1 {
						t.Fatalf("under-replicated pin %s was re-homed by %d survivors %v, want exactly one\ncase: %s", k, len(actors), actors, c)
					}
					if uniform && reachable && survivors > 0 && len(actors) != 1 {
						t.Fatalf("under-replicated pin %s (healthy holders %d < min %d, %d candidates) was re-homed by %d survivors, want exactly one\ncase: %s", k, len(curH), min, cand, len(actors), c)
					}
					if survivors >= 2 && reachable {
						nontrivial = true
					}
				case "remove":
					i := c.remover
					if !c.follower[i] && !c.disabled[i] && reachable && len(actors) != 1 {
						t.Fatalf("PeerRemove at instance %d did not re-home under-replicated pin %s\ncase: %s", i, k, c)
					}
					if survivors >= 2 && reachable {
						nontrivial = true
					}
				}
				if !reachable && len(actors) > 0 {
					if a, b := cmpx.PinStr(p0, fullNorm), cmpx.PinStr(results[k][actors[0]], fullNorm); a != b {
						t.Fatalf("pin %s cannot reach its minimum but was changed: %s\ncase: %s", k, cmpx.Diff(a, b), c)
					}
				}
			}
		}
		leg.Case(c.String(), nontrivial, classes...)
	})
}

func containsInt(l []int, x int) bool {
	for _, y := range l {
		if x == y {
			return true
		}
	}
	return false
}

func uniq(l []int) []int {
	m := map[int]bool{}
	var out []int
	for _, x := range l {
		if !m[x] {
			m[x] = true
			out = append(out, x)
		}
	}
	sort.Ints(out)
	return out
}
