package c08

import (
	"bytes"
	"encoding/json"
	"fmt"
	"net/url"
	"runtime"
	"testing"

	"verifharness/internal/cmpx"
	"verifharness/internal/ev"
	"verifharness/internal/gen"
	"verifharness/internal/kf"

	ds "github.com/ipfs/go-datastore"
	dssync "github.com/ipfs/go-datastore/sync"
	"github.com/ipfs/ipfs-cluster/api"
	"github.com/ipfs/ipfs-cluster/api/pb"
	"github.com/ipfs/ipfs-cluster/consensus/raft"
	"github.com/ipfs/ipfs-cluster/state/dsstate"
	"google.golang.org/protobuf/proto"
	"pgregory.net/rapid"
)

// wellFormed is the predicate under which a decoded pin must survive a full
// round trip (the first sentence of the property); for anything else only
// "re-encodable" is required (the last sentence).
func wellFormed(p *api.Pin) bool {
	if !p.Cid.Defined() {
		return false
	}
	switch p.Type {
	case api.DataType:
		if p.Reference != nil || (p.MaxDepth != -1 && p.MaxDepth != 0) {
			return false
		}
	case api.ShardType:
		if p.MaxDepth != 1 {
			return false
		}
	case api.ClusterDAGType:
		if p.MaxDepth != 0 || p.Reference == nil {
			return false
		}
	case api.MetaType:
		if len(p.Allocations) != 0 || p.Reference == nil || p.MaxDepth != -1 && p.MaxDepth != 0 {
			return false
		}
	default:
		return false
	}
	if p.Reference != nil && !p.Reference.Defined() {
		return false
	}
	for _, f := range []int{p.ReplicationFactorMin, p.ReplicationFactorMax} {
		if f < -1 || f > 1<<20 {
			return false
		}
	}
	for _, a := range p.Allocations {
		if a.Validate() != nil {
			return false
		}
	}
	for _, a := range p.UserAllocations {
		if a.Validate() != nil {
			return false
		}
	}
	for _, o := range p.Origins {
		if o == nil {
			return false
		}
	}
	if p.ExpireAt.Year() < 1 || p.ExpireAt.Year() > 9000 {
		return false
	}
	return true
}

// mutate derives an input from a valid encoding.
func mutate(t *rapid.T, b []byte) []byte {
	out := append([]byte(nil), b...)
	n := rapid.IntRange(0, 4).Draw(t, "nmut")
	for i := 0; i < n && len(out) > 0; i++ {
		pos := rapid.IntRange(0, len(out)-1).Draw(t, "pos")
		switch rapid.IntRange(0, 4).Draw(t, "mutkind") {
		case 0:
			out[pos] = rapid.Byte().Draw(t, "byte")
		case 1:
			out[pos] ^= 1 << uint(rapid.IntRange(0, 7).Draw(t, "bit"))
		case 2:
			out = out[:pos]
		case 3:
			ins := rapid.SliceOfN(rapid.Byte(), 1, 4).Draw(t, "ins")
			out = append(out[:pos], append(ins, out[pos:]...)...)
		default:
			l := rapid.IntRange(1, 8).Draw(t, "dl")
			if pos+l > len(out) {
				l = len(out) - pos
			}
			out = append(out[:pos], out[pos+l:]...)
		}
	}
	return out
}

// input draws bytes: random, or a (possibly mutated) valid encoding.
func input(t *rapid.T, valid func(t *rapid.T) []byte) ([]byte, string) {
	switch rapid.IntRange(0, 3).Draw(t, "src") {
	case 0:
		return rapid.SliceOfN(rapid.Byte(), 0, 64).Draw(t, "raw"), "random"
	case 1:
		return valid(t), "valid"
	default:
		return mutate(t, valid(t)), "mutated"
	}
}

func noPanic(t *rapid.T, what string, in []byte, f func()) {
	defer func() {
		if r := recover(); r != nil {
			t.Fatalf("%s panicked on input %x: %v", what, in, r)
		}
	}()
	f()
}

const ruleDec = "input = random bytes, a valid encoding of a generated value, a valid encoding with 1-4 byte-level mutations (overwrite, bit flip, truncate, insert, delete), or (protobuf) a well-formed message with hostile scalar field values; oracle: no panic; when the decoder accepts, the value re-encodes without error; when the accepted value is a well-formed pin the full round trip must be the identity; non-trivial = accepted by the decoder; distinct by input bytes"

func TestDecodeProto(t *testing.T) {
	leg := ev.L("decode-proto", "Pin.ProtoUnmarshal: "+ruleDec)
	rapid.Check(t, func(t *rapid.T) {
		in, src := input(t, func(t *rapid.T) []byte {
			b, err := gen.Pin(cfg()).Draw(t, "pin").ProtoMarshal()
			if err != nil {
				t.Fatal(err)
			}
			return b
		})
		// a fifth of the inputs are well-formed messages whose scalar fields
		// carry hostile values (the enum is open, the integers are signed)
		if rapid.IntRange(0, 4).Draw(t, "fieldLevel") == 0 {
			b, err := gen.Pin(cfg()).Draw(t, "pinf").ProtoMarshal()
			if err != nil {
				t.Fatal(err)
			}
			var m pb.Pin
			if err := proto.Unmarshal(b, &m); err != nil {
				t.Fatal(err)
			}
			i32 := []int32{-1, -2, -2147483648, 2147483647, 5, 31, 32, 63, 64, 1 << 20}
			switch rapid.IntRange(0, 4).Draw(t, "hostileField") {
			case 0:
				m.Type = pb.Pin_PinType(rapid.SampledFrom(i32).Draw(t, "type"))
			case 1:
				m.MaxDepth = rapid.SampledFrom(i32).Draw(t, "depth")
			case 2:
				if m.Options == nil {
					m.Options = &pb.PinOptions{}
				}
				m.Options.ReplicationFactorMin = rapid.SampledFrom(i32).Draw(t, "rmin")
				m.Options.ReplicationFactorMax = rapid.SampledFrom(i32).Draw(t, "rmax")
			case 3:
				if m.Options == nil {
					m.Options = &pb.PinOptions{}
				}
				m.Options.ExpireAt = rapid.SampledFrom([]uint64{1, 1 << 31, 1 << 62, 1<<64 - 1}).Draw(t, "expire")
				m.Options.ShardSize = rapid.SampledFrom([]uint64{0, 1, 1<<64 - 1}).Draw(t, "shard")
			default:
				m.Cid = rapid.SampledFrom([][]byte{nil, {}, {0}, {1, 0x55}, {0x12, 0x20}}).Draw(t, "cidbytes")
			}
			in, err = proto.Marshal(&m)
			if err != nil {
				t.Fatal(err)
			}
			src = "hostile-fields"
		}
		accepted := false
		noPanic(t, "ProtoUnmarshal/ProtoMarshal", in, func() {
			var p api.Pin
			if err := p.ProtoUnmarshal(in); err != nil {
				return
			}
			accepted = true
			b2, err := p.ProtoMarshal()
			if err != nil {
				t.Fatalf("decoded pin cannot be re-encoded: %v (input %x)", err, in)
			}
			if wellFormed(&p) {
				var q api.Pin
				if err := q.ProtoUnmarshal(b2); err != nil {
					t.Fatalf("re-encoding of a decoded well-formed pin does not decode: %v (input %x)", err, in)
				}
				if a, b := cmpx.PinStr(&p, cmpx.Stored), cmpx.PinStr(&q, cmpx.Stored); a != b {
					t.Fatalf("well-formed decoded pin changes on re-encoding (input %x): %s", in, cmpx.Diff(a, b))
				}
			}
		})
		leg.Case(fmt.Sprintf("%x", in), accepted, "src:"+src)
	})
}

type decTarget struct {
	name string
	zero func() interface{}
	gen  func(t *rapid.T) interface{}
}

func decTargets() []decTarget {
	ts := []decTarget{
		{"Pin", func() interface{} { return &api.Pin{} }, func(t *rapid.T) interface{} { return gen.Pin(cfg()).Draw(t, "v") }},
		{"LogOp", func() interface{} { return &raft.LogOp{} }, func(t *rapid.T) interface{} {
			return &raft.LogOp{Cid: gen.Pin(cfg()).Draw(t, "v"), Type: rapid.SampledFrom([]raft.LogOpType{raft.LogOpPin, raft.LogOpUnpin}).Draw(t, "ty")}
		}},
	}
	for _, rg := range recGens() {
		rg := rg
		ts = append(ts, decTarget{rg.name, rg.zero, rg.draw})
	}
	return ts
}

// KFAlloc: ugorji codec v1.2.6 (dependency) allocates the announced length
// when it decodes an array32 header into a byte-string-like field, so a
// 20-byte message costs gigabytes and seconds.
const KFAlloc = "C08-msgpack-length-alloc"

// hugeLen reports whether the input contains something that looks like a
// 32-bit msgpack length header announcing more than 64 KiB.
func hugeLen(in []byte) bool {
	for i := 0; i+4 < len(in); i++ {
		switch in[i] {
		case 0xdd, 0xdf, 0xdb, 0xc6, 0xc9:
			if n := uint32(in[i+1])<<24 | uint32(in[i+2])<<16 | uint32(in[i+3])<<8 | uint32(in[i+4]); n > 1<<16 {
				return true
			}
		}
	}
	return false
}

// allocated runs f and returns the bytes allocated meanwhile (whole
// process; legs run one case at a time).
func allocated(f func()) uint64 {
	var a, b runtime.MemStats
	runtime.ReadMemStats(&a)
	f()
	runtime.ReadMemStats(&b)
	return b.TotalAlloc - a.TotalAlloc
}

const allocBound = 1 << 30 // "never crashes" includes: a <= 1 KiB input must not cost a GiB

func TestDecodeMsgpack(t *testing.T) {
	targets := decTargets()
	leg := ev.L("decode-msgpack", "msgpack decoder into every record type (Pin, LogOp, PinInfo, GlobalPinInfo, ID, IPFSID, Metric, Alert, AddedOutput, RepoGC, GlobalRepoGC, ConnectGraph, NodeWithMeta, IPFSRepoStat, Version, Error, PinPath): "+ruleDec)
	rapid.Check(t, func(t *rapid.T) {
		tg := targets[rapid.IntRange(0, len(targets)-1).Draw(t, "target")]
		in, src := input(t, func(t *rapid.T) []byte {
			b, err := mpEncode(tg.gen(t))
			if err != nil {
				t.Fatal(err)
			}
			return b
		})
		if kf.Open(KFAlloc) && hugeLen(in) {
			leg.Excl("input with a 32-bit length header > 64 KiB skipped (" + KFAlloc + ")")
			return
		}
		accepted := false
		noPanic(t, "msgpack "+tg.name, in, func() {
			v := tg.zero()
			var err error
			if n := allocated(func() { err = mpDecode(in, v) }); n > allocBound {
				t.Fatalf("msgpack decode of a %d-byte input into %s allocated %d MiB (input %x)", len(in), tg.name, n>>20, in)
			}
			if err != nil {
				return
			}
			accepted = true
			b2, err := mpEncode(v)
			if err != nil {
				t.Fatalf("decoded %s cannot be re-encoded: %v (input %x)\nvalue: %s", tg.name, err, in, cmpx.Canon(v))
			}
			if p, ok := v.(*api.Pin); ok && wellFormed(p) {
				v2 := tg.zero()
				if err := mpDecode(b2, v2); err != nil {
					t.Fatalf("re-encoding of a decoded well-formed pin does not decode: %v (input %x)\nvalue: %s", err, in, cmpx.Canon(v))
				}
				if a, b := cmpx.PinStr(p, cmpx.Wire), cmpx.PinStr(v2.(*api.Pin), cmpx.Wire); a != b {
					t.Fatalf("well-formed decoded pin changes on re-encoding (input %x): %s", in, cmpx.Diff(a, b))
				}
			}
		})
		leg.Case(tg.name+fmt.Sprintf(":%x", in), accepted, "src:"+src, "target:"+tg.name)
	})
}

func TestDecodeJSON(t *testing.T) {
	targets := decTargets()
	leg := ev.L("decode-json", "encoding/json decoder into every record type with a JSON form: "+ruleDec)
	rapid.Check(t, func(t *rapid.T) {
		tg := targets[rapid.IntRange(0, len(targets)-1).Draw(t, "target")]
		in, src := input(t, func(t *rapid.T) []byte {
			b, err := json.Marshal(tg.gen(t))
			if err != nil {
				t.Fatal(err)
			}
			return b
		})
		accepted := false
		noPanic(t, "json "+tg.name, in, func() {
			v := tg.zero()
			if err := json.Unmarshal(in, v); err != nil {
				return
			}
			accepted = true
			b2, err := json.Marshal(v)
			if err != nil {
				t.Fatalf("decoded %s cannot be re-encoded: %v (input %q)\nvalue: %s", tg.name, err, in, cmpx.Canon(v))
			}
			if p, ok := v.(*api.Pin); ok && wellFormed(p) {
				v2 := tg.zero()
				if err := json.Unmarshal(b2, v2); err != nil {
					t.Fatalf("re-encoding of a decoded well-formed pin does not decode: %v (input %q)\nre-encoded: %s", err, in, b2)
				}
				if a, b := cmpx.PinStr(p, cmpx.Wire), cmpx.PinStr(v2.(*api.Pin), cmpx.Wire); a != b {
					t.Fatalf("well-formed decoded pin changes on re-encoding (input %q): %s", in, cmpx.Diff(a, b))
				}
			}
		})
		leg.Case(tg.name+":"+string(in), accepted, "src:"+src, "target:"+tg.name)
	})
}

func TestDecodeQuery(t *testing.T) {
	leg := ev.L("decode-query", "PinOptions.FromQuery and AddParamsFromQuery on query strings: random text, a valid ToQuery/ToQueryString output, or one with mutations; oracle: no panic; accepted options convert back to a query that is accepted again and yields equal options; non-trivial = accepted and at least one option present")
	rapid.Check(t, func(t *rapid.T) {
		add := rapid.Bool().Draw(t, "addparams")
		c := gen.Full
		c.UnixZero = false
		in, src := input(t, func(t *rapid.T) []byte {
			if add {
				s, _ := gen.AddParams(c).Draw(t, "ap").ToQueryString()
				return []byte(s)
			}
			o := gen.Options(c).Draw(t, "o")
			s, _ := o.ToQuery()
			return []byte(s)
		})
		accepted := false
		noPanic(t, "FromQuery", in, func() {
			vals, err := url.ParseQuery(string(in))
			if err != nil {
				return
			}
			n := cmpx.Norm{DropEmptyMetaKey: true}
			if add {
				p, err := api.AddParamsFromQuery(vals)
				if err != nil {
					return
				}
				accepted = len(vals) > 0
				qs, err := p.ToQueryString()
				if err != nil {
					t.Fatalf("accepted add params cannot be converted back: %v (query %q)", err, in)
				}
				v2, _ := url.ParseQuery(qs)
				p2, err := api.AddParamsFromQuery(v2)
				if err != nil {
					// chunker/hash are free text validated later by the adder; an empty
					// value is replaced by the default: not a round-trip claim
					t.Fatalf("re-encoded add params are refused: %v (query %q -> %q)", err, in, qs)
				}
				if vals.Get("expire-in") == "" {
					a, b := *p, *p2
					a.PinOptions, b.PinOptions = cmpx.NormOpts(a.PinOptions, n), cmpx.NormOpts(b.PinOptions, n)
					if x, y := cmpx.Canon(&a), cmpx.Canon(&b); x != y {
						t.Fatalf("accepted add params change on re-encoding (query %q): %s", in, cmpx.Diff(x, y))
					}
				}
				return
			}
			var o api.PinOptions
			if err := o.FromQuery(vals); err != nil {
				return
			}
			accepted = len(vals) > 0
			qs, err := o.ToQuery()
			if err != nil {
				t.Fatalf("accepted options cannot be converted back: %v (query %q)", err, in)
			}
			v2, _ := url.ParseQuery(qs)
			var o2 api.PinOptions
			if err := o2.FromQuery(v2); err != nil {
				t.Fatalf("re-encoded options are refused: %v (query %q -> %q)", err, in, qs)
			}
			if x, y := cmpx.OptsStr(o, n), cmpx.OptsStr(o2, n); x != y {
				t.Fatalf("accepted options change on re-encoding (query %q): %s", in, cmpx.Diff(x, y))
			}
		})
		leg.Case(string(in), accepted, "src:"+src)
	})
}

func TestDecodeState(t *testing.T) {
	leg := ev.L("decode-state", "dsstate.Unmarshal on bytes: random, a Marshal output of a generated pinset, or a mutated one; then List/Marshal on the result; oracle: no panic, and if Unmarshal accepts, Marshal of the resulting state succeeds; non-trivial = accepted with at least one listed pin")
	rapid.Check(t, func(t *rapid.T) {
		in, src := input(t, func(t *rapid.T) []byte {
			st, _ := dsstate.New(dssync.MutexWrap(ds.NewMapDatastore()), "/s", nil)
			for _, p := range rapid.SliceOfN(gen.Pin(cfg()), 0, 4).Draw(t, "pins") {
				st.Add(ctxbg, p)
			}
			var buf bytes.Buffer
			if err := st.Marshal(&buf); err != nil {
				t.Fatal(err)
			}
			return buf.Bytes()
		})
		nt := false
		noPanic(t, "dsstate.Unmarshal", in, func() {
			st, _ := dsstate.New(dssync.MutexWrap(ds.NewMapDatastore()), "/s", nil)
			if err := st.Unmarshal(bytes.NewReader(in)); err != nil {
				return
			}
			pins, err := st.List(ctxbg)
			if err != nil {
				t.Fatalf("List after accepted Unmarshal: %v", err)
			}
			var buf bytes.Buffer
			if err := st.Marshal(&buf); err != nil {
				t.Fatalf("Marshal after accepted Unmarshal: %v", err)
			}
			nt = len(pins) > 0
		})
		leg.Case(fmt.Sprintf("%x", in), nt, "src:"+src)
	})
}

func TestDecodeStrings(t *testing.T) {
	leg := ev.L("decode-strings", "TrackerStatusFromString / PinTypeFromString / PinModeFromString / IPFSPinStatusFromString on arbitrary and near-valid strings; oracle: no panic and the result's String() parses back to the same value; non-trivial = result is not the zero/bad value")
	rapid.Check(t, func(t *rapid.T) {
		words := []string{"pinned", "pin_error", "error", "queued", "unpin_queued", "remote", "sharded", " ", ",", "pin", "meta-pin", "all", "direct", "recursive", "indirect through x", "x"}
		var s string
		if rapid.Bool().Draw(t, "words") {
			parts := rapid.SliceOfN(rapid.SampledFrom(words), 0, 5).Draw(t, "parts")
			for i, p := range parts {
				if i > 0 && rapid.Bool().Draw(t, "comma") {
					s += ","
				}
				s += p
			}
		} else {
			s = rapid.String().Draw(t, "s")
		}
		nt := false
		noPanic(t, "FromString", []byte(s), func() {
			st := api.TrackerStatusFromString(s)
			if back := api.TrackerStatusFromString(st.String()); back != st {
				t.Fatalf("TrackerStatusFromString(%q)=%d, but its String() %q parses to %d", s, st, st.String(), back)
			}
			pt := api.PinTypeFromString(s)
			if pt != api.BadType {
				if back := api.PinTypeFromString(pt.String()); back != pt {
					t.Fatalf("PinTypeFromString(%q)=%d, String()=%q parses to %d", s, pt, pt.String(), back)
				}
			}
			pm := api.PinModeFromString(s)
			if back := api.PinModeFromString(pm.String()); back != pm {
				t.Fatalf("PinModeFromString(%q)", s)
			}
			_ = api.IPFSPinStatusFromString(s)
			nt = st != 0 || pt != api.BadType
		})
		leg.Case(s, nt)
	})
}
