package c08

import (
	"context"
	"sort"

	"verifharness/internal/gen"

	"github.com/ipfs/ipfs-cluster/api"
	"pgregory.net/rapid"
)

func sortedOpts(o api.PinOptions) api.PinOptions {
	sort.Slice(o.UserAllocations, func(i, j int) bool { return o.UserAllocations[i] < o.UserAllocations[j] })
	sort.Slice(o.Origins, func(i, j int) bool { return o.Origins[i].String() < o.Origins[j].String() })
	return o
}

func applyDelta(t *rapid.T, b *api.PinOptions, d string) {
	switch d {
	case "name":
		b.Name = gen.Name().Draw(t, "name2")
	case "mode":
		b.Mode = 1 - b.Mode
	case "rmin":
		b.ReplicationFactorMin = rapid.IntRange(-1, 4).Draw(t, "rmin2")
	case "rmax":
		b.ReplicationFactorMax = rapid.IntRange(-1, 4).Draw(t, "rmax2")
	case "shard":
		b.ShardSize = rapid.SampledFrom([]uint64{0, 7, 1024}).Draw(t, "shard2")
	case "ua":
		b.UserAllocations = gen.PeerSubset(len(gen.Peers), 3).Draw(t, "ua2")
	case "expire":
		b.ExpireAt = gen.ExpireAt(true, false).Draw(t, "exp2")
	case "meta-add":
		if b.Metadata == nil {
			b.Metadata = map[string]string{}
		}
		b.Metadata[rapid.SampledFrom([]string{"k1", "k 2", "ключ", "new"}).Draw(t, "mk2")] = rapid.SampledFrom([]string{"", "v", "z"}).Draw(t, "mv2")
	case "meta-rm":
		for _, k := range []string{"k1", "k 2", "ключ"} {
			if _, ok := b.Metadata[k]; ok {
				delete(b.Metadata, k)
				break
			}
		}
	case "meta-val":
		for _, k := range []string{"k1", "k 2", "ключ"} {
			if _, ok := b.Metadata[k]; ok {
				b.Metadata[k] = rapid.SampledFrom([]string{"", "v", "changed"}).Draw(t, "mv3")
				break
			}
		}
	case "origin-add":
		o := gen.Origin().Draw(t, "o2")
		for _, x := range b.Origins {
			if x.Equal(o) {
				return // a well-formed origin list has no duplicates
			}
		}
		b.Origins = append(b.Origins, o)
	case "origin-rm":
		if len(b.Origins) > 0 {
			b.Origins = b.Origins[1:]
		}
	}
}

var ctxbg = context.Background()
