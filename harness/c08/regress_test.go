package c08

import (
	"encoding/json"
	"fmt"
	"testing"

	"verifharness/internal/cmpx"
	"verifharness/internal/ev"
	"verifharness/internal/gen"
	"verifharness/internal/kf"

	"github.com/ipfs/ipfs-cluster/api"
	multiaddr "github.com/multiformats/go-multiaddr"
)

// Plain regression tests (no library): the shrunk failures found on the
// pinned tree, now fixed in /repo. They report a violation if one returns.

func TestRegressOriginsDecode(t *testing.T) {
	p := api.PinCid(gen.Cids[0])
	m, _ := multiaddr.NewMultiaddr("/p2p/" + gen.Peers[0].Pretty())
	p.Origins = []multiaddr.Multiaddr{m}
	want := cmpx.PinStr(p, cmpx.Wire)
	b, err := mpEncode(p)
	if err != nil {
		t.Fatal(err)
	}
	var q api.Pin
	if err := mpDecode(b, &q); err != nil {
		t.Fatalf("msgpack: pin with one origin cannot be decoded: %v", err)
	}
	if got := cmpx.PinStr(&q, cmpx.Wire); got != want {
		t.Fatalf("msgpack: %s", cmpx.Diff(want, got))
	}
	jb, _ := json.Marshal(p)
	var r api.Pin
	if err := json.Unmarshal(jb, &r); err != nil {
		t.Fatalf("JSON: pin with one origin cannot be decoded: %v", err)
	}
	if got := cmpx.PinStr(&r, cmpx.Wire); got != want {
		t.Fatalf("JSON: %s", cmpx.Diff(want, got))
	}
}

func TestRegressEqualsSymmetric(t *testing.T) {
	a := api.PinOptions{Metadata: map[string]string{}}
	b := api.PinOptions{Metadata: map[string]string{"k1": "v"}}
	if a.Equals(&b) || b.Equals(&a) {
		t.Fatalf("options differing in one metadata key are Equal: a.Equals(b)=%v b.Equals(a)=%v", a.Equals(&b), b.Equals(&a))
	}
}

func TestRegressStatusUnionString(t *testing.T) {
	f := api.TrackerStatusPinError | api.TrackerStatusUnpinQueued
	if got := api.TrackerStatusFromString(f.String()); got != f {
		t.Fatalf("filter %d -> %q -> %d", f, f.String(), got)
	}
}

func TestRegressBadMultiaddrJSON(t *testing.T) {
	defer func() {
		if r := recover(); r != nil {
			t.Fatalf("decoding an ID with a malformed address panics: %v", r)
		}
	}()
	var id api.ID
	if err := json.Unmarshal([]byte(`{"addresses":[".p2p/x"]}`), &id); err == nil {
		t.Fatal("malformed address accepted")
	}
	var p api.Pin
	if err := json.Unmarshal([]byte(`{"origins":["/ip4/999.1.1.1"]}`), &p); err == nil {
		t.Fatal("malformed origin accepted")
	}
}

// Probe of the open finding KFAlloc (dependency: ugorji codec v1.2.6).
func TestRegressKnownMsgpackAlloc(t *testing.T) {
	if !kf.Open(KFAlloc) {
		t.Skip("not listed")
	}
	// {"c": array32 of 0x10000000 elements} : 8 bytes announce 256 Mi entries for the CID field
	in := []byte{0x81, 0xa1, 'c', 0xdd, 0x10, 0x00, 0x00, 0x00}
	var p api.Pin
	n := allocated(func() { _ = mpDecode(in, &p) })
	ev.KnownFinding(KFAlloc, n > 100<<20, fmt.Sprintf("msgpack decode of the 8-byte input %x into api.Pin allocates %d MiB (array32 length is trusted when decoding into a byte-string field)", in, n>>20))
}

// fixed (repair 35): a msgpack pin whose origins list holds a nil entry
// decoded into a pin that could not be encoded, stored or served again
// (found by FuzzMsgpackPin in the thorough tier).
func TestRegressNilOriginRefused(t *testing.T) {
	in := []byte("\x88\xa1g\x91\xc0\xc00\xc00\xc00\xc00\xc00\xc00\xc00")
	var p api.Pin
	if err := mpDecode(in, &p); err == nil {
		if _, eerr := mpEncode(&p); eerr != nil {
			t.Fatalf("a pin with a nil origin was decoded without error and cannot be encoded again: %v", eerr)
		}
	}
}
