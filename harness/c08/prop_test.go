// Package c08: records survive every encoding boundary; decoders never crash.
package c08

import (
	"bytes"
	"context"
	"encoding/json"
	"fmt"
	"net/url"
	"os"
	"reflect"
	"strings"
	"testing"

	"verifharness/internal/cmpx"
	"verifharness/internal/ev"
	"verifharness/internal/gen"
	"verifharness/internal/kf"

	ds "github.com/ipfs/go-datastore"
	dssync "github.com/ipfs/go-datastore/sync"
	"github.com/ipfs/ipfs-cluster/api"
	"github.com/ipfs/ipfs-cluster/consensus/raft"
	"github.com/ipfs/ipfs-cluster/state/dsstate"
	"github.com/ugorji/go/codec"
	"pgregory.net/rapid"
)

func TestMain(m *testing.M) {
	code := m.Run()
	ev.Flush()
	os.Exit(code)
}

// KFOrigins is the id of the known finding "pins with origins cannot be
// decoded from msgpack/JSON".
const KFOrigins = "C08-origins-undecodable"

func cfg() gen.OptCfg {
	c := gen.Full
	if kf.Open(KFOrigins) {
		c.Origins = false
	}
	return c
}

func optionalFields(p *api.Pin) int {
	n := 0
	if len(p.Origins) > 0 {
		n++
	}
	if p.Reference != nil {
		n++
	}
	if p.PinUpdate.Defined() {
		n++
	}
	if len(p.Metadata) > 0 {
		n++
	}
	if !p.ExpireAt.IsZero() {
		n++
	}
	if len(p.Allocations) > 0 {
		n++
	}
	if len(p.UserAllocations) > 0 {
		n++
	}
	return n
}

func pinClasses(p *api.Pin) []string {
	cl := []string{"type:" + p.Type.String(), fmt.Sprintf("cidv%d", p.Cid.Version())}
	if len(p.Origins) > 0 {
		cl = append(cl, "has-origins")
	}
	if _, ok := p.Metadata[""]; ok {
		cl = append(cl, "empty-meta-key")
	}
	if p.ExpireAt.Nanosecond() != 0 {
		cl = append(cl, "subsecond-expiry")
	}
	if p.PinUpdate.Defined() {
		cl = append(cl, "has-update")
	}
	if p.Reference != nil {
		cl = append(cl, "has-reference")
	}
	return cl
}

func drawPin(t *rapid.T, leg *ev.Leg) *api.Pin {
	c := cfg()
	if !c.Origins {
		leg.Excl("origins forced empty (" + KFOrigins + ")")
	}
	return gen.Pin(c).Draw(t, "pin")
}

func mpEncode(v interface{}) ([]byte, error) {
	var buf bytes.Buffer
	err := codec.NewEncoder(&buf, &codec.MsgpackHandle{}).Encode(v)
	return buf.Bytes(), err
}

// mpDecode decodes from a private copy of b and then overwrites that copy:
// the buffer a value is decoded from belongs to the transport (the Raft log
// decoder reuses a scratch buffer), so a decoded value that still points
// into it changes under its owner's feet. BinaryUnmarshaler implementations
// must copy what they keep.
func mpDecode(b []byte, v interface{}) error {
	in := append([]byte(nil), b...)
	err := codec.NewDecoderBytes(in, &codec.MsgpackHandle{}).Decode(v)
	for i := range in {
		in[i] = 0xA5
	}
	return err
}

const rulePin = "well-formed pins of every type (gen.Pin: both CID versions, all codecs, factors, names, metadata incl. empty key, expiry zero/unix0/whole-second/nanoseconds, allocations, user allocations, origins, reference, update source); non-trivial = at least 2 optional fields set; distinct by canonical rendering"

// Stored protobuf form: decode(encode(p)) == p up to user allocations,
// sub-second expiry and mode-from-depth.
func TestPinProto(t *testing.T) {
	leg := ev.L("pin-proto", rulePin)
	rapid.Check(t, func(t *rapid.T) {
		p := drawPin(t, leg)
		want := cmpx.PinStr(p, cmpx.Stored)
		b, err := p.ProtoMarshal()
		if err != nil {
			t.Fatalf("ProtoMarshal: %v", err)
		}
		var q api.Pin
		if err := q.ProtoUnmarshal(b); err != nil {
			t.Fatalf("ProtoUnmarshal of an encoded well-formed pin: %v\npin: %s", err, want)
		}
		got := cmpx.PinStr(&q, cmpx.Stored)
		if got != want {
			t.Fatalf("protobuf round-trip changed the pin: %s", cmpx.Diff(want, got))
		}
		leg.Case(want, optionalFields(p) >= 2, pinClasses(p)...)
	})
}

// Same through the state (dsstate serialises with the pin's CID as key).
func TestPinState(t *testing.T) {
	leg := ev.L("pin-dsstate", rulePin+"; written with State.Add and read with State.Get/List")
	ctx := context.Background()
	rapid.Check(t, func(t *rapid.T) {
		p := drawPin(t, leg)
		want := cmpx.PinStr(p, cmpx.Stored)
		st, err := dsstate.New(dssync.MutexWrap(ds.NewMapDatastore()), "/x", nil)
		if err != nil {
			t.Fatal(err)
		}
		if err := st.Add(ctx, p); err != nil {
			t.Fatalf("Add: %v", err)
		}
		q, err := st.Get(ctx, p.Cid)
		if err != nil {
			t.Fatalf("Get after Add: %v", err)
		}
		if got := cmpx.PinStr(q, cmpx.Stored); got != want {
			t.Fatalf("state Get differs: %s", cmpx.Diff(want, got))
		}
		l, err := st.List(ctx)
		if err != nil || len(l) != 1 {
			t.Fatalf("List: %v, %d entries", err, len(l))
		}
		if got := cmpx.PinStr(l[0], cmpx.Stored); got != want {
			t.Fatalf("state List differs: %s", cmpx.Diff(want, got))
		}
		leg.Case(want, optionalFields(p) >= 2, pinClasses(p)...)
	})
}

// A whole state (what a Raft snapshot or a state export carries): several
// pins written, serialised with Marshal, restored with Unmarshal into a
// fresh in-memory state.
func TestStateSnapshot(t *testing.T) {
	leg := ev.L("state-snapshot", rulePin+"; 2-6 such pins on distinct CIDs written to one dsstate, Marshal, Unmarshal into an empty state over a fresh in-memory datastore, every pin read back with Get and List; non-trivial = at least two pins with >= 2 optional fields")
	ctx := context.Background()
	rapid.Check(t, func(t *rapid.T) {
		n := rapid.IntRange(2, 6).Draw(t, "npins")
		st, err := dsstate.New(dssync.MutexWrap(ds.NewMapDatastore()), "/x", nil)
		if err != nil {
			t.Fatal(err)
		}
		want := map[string]string{}
		rich := 0
		var all []string
		for i := 0; i < n; i++ {
			p := drawPin(t, leg)
			p.Cid = gen.Cids[i]
			if err := st.Add(ctx, p); err != nil {
				t.Fatalf("Add: %v", err)
			}
			want[p.Cid.String()] = cmpx.PinStr(p, cmpx.Stored)
			all = append(all, want[p.Cid.String()])
			if optionalFields(p) >= 2 {
				rich++
			}
		}
		var buf bytes.Buffer
		if err := st.Marshal(&buf); err != nil {
			t.Fatalf("Marshal: %v", err)
		}
		st2, err := dsstate.New(dssync.MutexWrap(ds.NewMapDatastore()), "/x", nil)
		if err != nil {
			t.Fatal(err)
		}
		if err := st2.Unmarshal(bytes.NewReader(buf.Bytes())); err != nil {
			t.Fatalf("Unmarshal of a marshalled state: %v", err)
		}
		l, err := st2.List(ctx)
		if err != nil || len(l) != len(want) {
			t.Fatalf("restored state lists %d pins (err %v), %d were written", len(l), err, len(want))
		}
		for _, q := range l {
			if got := cmpx.PinStr(q, cmpx.Stored); got != want[q.Cid.String()] {
				t.Fatalf("restored pin %s differs (List): %s", q.Cid, cmpx.Diff(want[q.Cid.String()], got))
			}
			g, err := st2.Get(ctx, q.Cid)
			if err != nil {
				t.Fatalf("Get(%s) on the restored state: %v", q.Cid, err)
			}
			if got := cmpx.PinStr(g, cmpx.Stored); got != want[q.Cid.String()] {
				t.Fatalf("restored pin %s differs (Get): %s", q.Cid, cmpx.Diff(want[q.Cid.String()], got))
			}
		}
		leg.Case(strings.Join(all, " || "), rich >= 2)
	})
}

// msgpack as used by gorpc, go-libp2p-raft and dsstate.DefaultHandle.
func TestPinMsgpack(t *testing.T) {
	leg := ev.L("pin-msgpack", rulePin)
	rapid.Check(t, func(t *rapid.T) {
		p := drawPin(t, leg)
		want := cmpx.PinStr(p, cmpx.Wire)
		b, err := mpEncode(p)
		if err != nil {
			t.Fatalf("msgpack encode: %v", err)
		}
		var q api.Pin
		if err := mpDecode(b, &q); err != nil {
			t.Fatalf("msgpack decode of an encoded well-formed pin fails: %v\npin: %s", err, want)
		}
		if got := cmpx.PinStr(&q, cmpx.Wire); got != want {
			t.Fatalf("msgpack round-trip changed the pin: %s", cmpx.Diff(want, got))
		}
		leg.Case(want, optionalFields(p) >= 2, pinClasses(p)...)
	})
}

// The Raft log entry.
func TestLogOpMsgpack(t *testing.T) {
	leg := ev.L("logop-msgpack", rulePin+"; wrapped in a raft.LogOp of type pin/unpin")
	rapid.Check(t, func(t *rapid.T) {
		p := drawPin(t, leg)
		op := &raft.LogOp{Cid: p, Type: rapid.SampledFrom([]raft.LogOpType{raft.LogOpPin, raft.LogOpUnpin}).Draw(t, "optype"), TagCtx: rapid.SliceOfN(rapid.Byte(), 0, 5).Draw(t, "tag")}
		want := cmpx.Canon(op)
		b, err := mpEncode(op)
		if err != nil {
			t.Fatalf("encode: %v", err)
		}
		var q raft.LogOp
		if err := mpDecode(b, &q); err != nil {
			t.Fatalf("LogOp decode fails: %v\nop: %s", err, want)
		}
		if got := cmpx.Canon(&q); got != want {
			t.Fatalf("LogOp round-trip: %s", cmpx.Diff(want, got))
		}
		leg.Case(want, optionalFields(p) >= 2, pinClasses(p)...)
	})
}

// The Raft FSM (go-libp2p-raft) decodes every committed entry onto one
// long-lived LogOp value, whose pin LogOp.ApplyTo detaches after use: a
// sequence of operations decoded that way must come out as it went in.
func TestLogOpSequence(t *testing.T) {
	leg := ev.L("logop-sequence", rulePin+"; 2-5 raft.LogOp values (pin or unpin) encoded one by one and decoded, in order, onto the same LogOp variable with its pin detached between entries (as the Raft FSM does); every decoded entry must equal the encoded one; non-trivial = an unpin followed by a pin, or a pin with >= 2 optional fields followed by a bare one")
	rapid.Check(t, func(t *rapid.T) {
		n := rapid.IntRange(2, 5).Draw(t, "n")
		var reused raft.LogOp
		var desc []string
		nontrivial := false
		prevUnpin, prevRich := false, false
		for i := 0; i < n; i++ {
			p := drawPin(t, leg)
			if rapid.IntRange(0, 2).Draw(t, "bare") == 0 {
				p = api.PinCid(p.Cid)
			}
			ty := rapid.SampledFrom([]raft.LogOpType{raft.LogOpPin, raft.LogOpUnpin}).Draw(t, "optype") // by name: the wire values are the code's business
			op := &raft.LogOp{Cid: p, Type: ty}
			want := cmpx.Canon(op)
			b, err := mpEncode(op)
			if err != nil {
				t.Fatalf("encode: %v", err)
			}
			if err := mpDecode(b, &reused); err != nil {
				t.Fatalf("entry %d: decode onto the reused LogOp fails: %v", i, err)
			}
			if got := cmpx.Canon(&reused); got != want {
				t.Fatalf("entry %d of the sequence, decoded onto the LogOp that held entry %d, differs from what was encoded: %s\nsequence so far: %v", i, i-1, cmpx.Diff(want, got), desc)
			}
			if (prevUnpin && ty == raft.LogOpPin) || (prevRich && optionalFields(p) == 0) {
				nontrivial = true
			}
			prevUnpin, prevRich = ty == raft.LogOpUnpin, optionalFields(p) >= 2
			desc = append(desc, want)
			reused.Cid = nil // what ApplyTo does once it has taken the pin
		}
		leg.Case(strings.Join(desc, " ; "), nontrivial)
	})
}

// JSON of the REST API and of state export.
func TestPinJSON(t *testing.T) {
	leg := ev.L("pin-json", rulePin)
	rapid.Check(t, func(t *rapid.T) {
		p := drawPin(t, leg)
		want := cmpx.PinStr(p, cmpx.Wire)
		b, err := json.Marshal(p)
		if err != nil {
			t.Fatalf("json encode: %v", err)
		}
		var q api.Pin
		if err := json.Unmarshal(b, &q); err != nil {
			t.Fatalf("JSON decode of an encoded well-formed pin fails: %v\njson: %s", err, b)
		}
		if got := cmpx.PinStr(&q, cmpx.Wire); got != want {
			t.Fatalf("JSON round-trip changed the pin: %s\njson: %s", cmpx.Diff(want, got), b)
		}
		leg.Case(want, optionalFields(p) >= 2, pinClasses(p)...)
	})
}

func optsNontrivial(o api.PinOptions) bool {
	n := 0
	if len(o.Origins) > 0 {
		n++
	}
	if o.PinUpdate.Defined() {
		n++
	}
	if len(o.Metadata) > 0 {
		n++
	}
	if !o.ExpireAt.IsZero() {
		n++
	}
	if len(o.UserAllocations) > 0 {
		n++
	}
	return n >= 2
}

// Query-string form of the pin options (REST client <-> server).
func TestOptsQuery(t *testing.T) {
	leg := ev.L("opts-query", "pin options (gen.Options, everything allowed); query form drops metadata entries with an empty key (documented in ToQuery/FromQuery); non-trivial = at least 2 of origins/update/metadata/expiry/user-allocations set")
	rapid.Check(t, func(t *rapid.T) {
		c := gen.Full // the query form of origins is a string list: not affected by KFOrigins
		c.UnixZero = false
		o := gen.Options(c).Draw(t, "opts")
		n := cmpx.Norm{DropEmptyMetaKey: true}
		want := cmpx.OptsStr(o, n)
		qs, err := o.ToQuery()
		if err != nil {
			t.Fatalf("ToQuery: %v", err)
		}
		vals, err := url.ParseQuery(qs)
		if err != nil {
			t.Fatalf("ToQuery produced an unparsable query %q: %v", qs, err)
		}
		var q api.PinOptions
		if err := q.FromQuery(vals); err != nil {
			t.Fatalf("FromQuery(ToQuery(o)) fails: %v\nquery: %s", err, qs)
		}
		if got := cmpx.OptsStr(q, n); got != want {
			t.Fatalf("query round-trip changed the options: %s\nquery: %s", cmpx.Diff(want, got), qs)
		}
		cl := []string{}
		if _, ok := o.Metadata[""]; ok {
			cl = append(cl, "empty-meta-key")
		}
		if len(o.Origins) > 0 {
			cl = append(cl, "has-origins")
		}
		leg.Case(want, optsNontrivial(o), cl...)
	})
}

func TestAddParamsQuery(t *testing.T) {
	leg := ev.L("addparams-query", "add parameters (gen.AddParams: all flags, layouts, chunkers, hash functions, formats, pin options without update source); non-trivial = pin options non-trivial or >= 3 boolean flags set")
	rapid.Check(t, func(t *rapid.T) {
		c := gen.Full
		c.UnixZero = false
		p := gen.AddParams(c).Draw(t, "params")
		n := cmpx.Norm{DropEmptyMetaKey: true}
		norm := func(a *api.AddParams) string {
			b := *a
			b.PinOptions = cmpx.NormOpts(a.PinOptions, n)
			return cmpx.Canon(&b)
		}
		want := norm(p)
		qs, err := p.ToQueryString()
		if err != nil {
			t.Fatalf("ToQueryString: %v", err)
		}
		vals, err := url.ParseQuery(qs)
		if err != nil {
			t.Fatal(err)
		}
		q, err := api.AddParamsFromQuery(vals)
		if err != nil {
			t.Fatalf("AddParamsFromQuery(ToQueryString(p)) fails: %v\nquery: %s", err, qs)
		}
		if got := norm(q); got != want {
			t.Fatalf("add-params query round-trip: %s\nquery: %s", cmpx.Diff(want, got), qs)
		}
		flags := 0
		for _, b := range []bool{p.Local, p.Recursive, p.Hidden, p.Wrap, p.Shard, p.RawLeaves, p.Progress, p.NoCopy} {
			if b {
				flags++
			}
		}
		leg.Case(want, optsNontrivial(p.PinOptions) || flags >= 3)
	})
}

type recGen struct {
	name string
	draw func(t *rapid.T) interface{}
	zero func() interface{}
	json bool
}

func recGens() []recGen {
	return []recGen{
		{"PinInfo", func(t *rapid.T) interface{} { return gen.PinInfo().Draw(t, "v") }, func() interface{} { return &api.PinInfo{} }, true},
		{"GlobalPinInfo", func(t *rapid.T) interface{} { return gen.GlobalPinInfo().Draw(t, "v") }, func() interface{} { return &api.GlobalPinInfo{} }, true},
		{"ID", func(t *rapid.T) interface{} { return gen.ID().Draw(t, "v") }, func() interface{} { return &api.ID{} }, true},
		{"IPFSID", func(t *rapid.T) interface{} { return gen.IPFSID().Draw(t, "v") }, func() interface{} { return &api.IPFSID{} }, true},
		{"Metric", func(t *rapid.T) interface{} { return gen.Metric().Draw(t, "v") }, func() interface{} { return &api.Metric{} }, true},
		{"Alert", func(t *rapid.T) interface{} { return gen.Alert().Draw(t, "v") }, func() interface{} { return &api.Alert{} }, true},
		{"AddedOutput", func(t *rapid.T) interface{} { return gen.AddedOutput().Draw(t, "v") }, func() interface{} { return &api.AddedOutput{} }, true},
		{"RepoGC", func(t *rapid.T) interface{} { return gen.RepoGC().Draw(t, "v") }, func() interface{} { return &api.RepoGC{} }, true},
		{"GlobalRepoGC", func(t *rapid.T) interface{} { return gen.GlobalRepoGC().Draw(t, "v") }, func() interface{} { return &api.GlobalRepoGC{} }, true},
		{"ConnectGraph", func(t *rapid.T) interface{} { return gen.ConnectGraph().Draw(t, "v") }, func() interface{} { return &api.ConnectGraph{} }, true},
		{"NodeWithMeta", func(t *rapid.T) interface{} { return gen.NodeWithMeta().Draw(t, "v") }, func() interface{} { return &api.NodeWithMeta{} }, false},
		{"IPFSRepoStat", func(t *rapid.T) interface{} {
			return &api.IPFSRepoStat{RepoSize: rapid.Uint64().Draw(t, "r"), StorageMax: rapid.Uint64().Draw(t, "s")}
		}, func() interface{} { return &api.IPFSRepoStat{} }, true},
		{"Version", func(t *rapid.T) interface{} {
			return &api.Version{Version: rapid.SampledFrom([]string{"", "0.14.0", "ü"}).Draw(t, "v")}
		}, func() interface{} { return &api.Version{} }, true},
		{"Error", func(t *rapid.T) interface{} {
			return &api.Error{Code: rapid.IntRange(-1, 600).Draw(t, "c"), Message: gen.ErrStr().Draw(t, "m")}
		}, func() interface{} { return &api.Error{} }, true},
		{"PinPath", func(t *rapid.T) interface{} {
			c := cfg()
			return &api.PinPath{PinOptions: gen.Options(c).Draw(t, "o"), Path: rapid.SampledFrom([]string{"/ipfs/" + gen.Cids[0].String(), "/ipns/example.org/a b", ""}).Draw(t, "p")}
		}, func() interface{} { return &api.PinPath{} }, true},
	}
}

// Every other record exchanged between peers and clients, through msgpack
// (RPC) and JSON (REST).
func TestRecords(t *testing.T) {
	for _, rg := range recGens() {
		rg := rg
		t.Run(rg.name, func(t *testing.T) {
			leg := ev.L("record-"+rg.name, "values of api."+rg.name+" from the harness generator, through msgpack and (where the type has a JSON form) JSON; non-trivial = rendering differs from the zero value's; distinct by canonical rendering")
			zero := cmpx.Canon(rg.zero())
			rapid.Check(t, func(t *rapid.T) {
				v := rg.draw(t)
				want := cmpx.Canon(v)
				b, err := mpEncode(v)
				if err != nil {
					t.Fatalf("msgpack encode: %v", err)
				}
				q := rg.zero()
				if err := mpDecode(b, q); err != nil {
					t.Fatalf("msgpack decode fails: %v\nvalue: %s", err, want)
				}
				if got := cmpx.Canon(q); got != want {
					t.Fatalf("msgpack round-trip of %s: %s", rg.name, cmpx.Diff(want, got))
				}
				if rg.json {
					jb, err := json.Marshal(v)
					if err != nil {
						t.Fatalf("json encode: %v", err)
					}
					q2 := rg.zero()
					if err := json.Unmarshal(jb, q2); err != nil {
						t.Fatalf("JSON decode fails: %v\njson: %s", err, jb)
					}
					if got := cmpx.Canon(q2); got != want {
						t.Fatalf("JSON round-trip of %s: %s\njson: %s", rg.name, cmpx.Diff(want, got), jb)
					}
				}
				leg.Case(want, want != zero)
			})
		})
	}
}

// String and JSON forms of the enumerations.
func TestEnums(t *testing.T) {
	leg := ev.L("enums", "tracker status filters (every single status, composites, arbitrary unions), pin types, pin modes: string form and JSON form parse back to the same value; non-trivial = union of >= 2 statuses")
	rapid.Check(t, func(t *rapid.T) {
		f := gen.Filter().Draw(t, "filter")
		if got := api.TrackerStatusFromString(f.String()); got != f {
			t.Fatalf("TrackerStatusFromString(%q) = %d, want %d", f.String(), got, f)
		}
		b, err := json.Marshal(f)
		if err != nil {
			t.Fatal(err)
		}
		var g api.TrackerStatus
		if err := json.Unmarshal(b, &g); err != nil || g != f {
			t.Fatalf("tracker status JSON round-trip: %s -> %d (err %v), want %d", b, g, err, f)
		}
		pt := rapid.SampledFrom([]api.PinType{api.DataType, api.MetaType, api.ClusterDAGType, api.ShardType, api.AllType}).Draw(t, "pt")
		if got := api.PinTypeFromString(pt.String()); got != pt {
			t.Fatalf("PinTypeFromString(%q) = %d want %d", pt.String(), got, pt)
		}
		pm := rapid.SampledFrom([]api.PinMode{api.PinModeRecursive, api.PinModeDirect}).Draw(t, "pm")
		if got := api.PinModeFromString(pm.String()); got != pm {
			t.Fatalf("PinModeFromString(%q) = %d want %d", pm.String(), got, pm)
		}
		mb, _ := json.Marshal(pm)
		var pm2 api.PinMode
		if err := json.Unmarshal(mb, &pm2); err != nil || pm2 != pm {
			t.Fatalf("pin mode JSON round-trip %s -> %d (%v)", mb, pm2, err)
		}
		bits := 0
		for _, s := range gen.Statuses {
			if f&s != 0 {
				bits++
			}
		}
		leg.Case(fmt.Sprintf("filter=%d type=%d mode=%d", f, pt, pm), bits >= 2)
	})
}

// The tree's own equality, used by callers to detect "unchanged options",
// must agree with the comparator on the fields it covers.
func TestEqualsAgrees(t *testing.T) {
	leg := ev.L("equals-agrees", "pairs of pin options (second = first with 0-2 single-field deltas); PinOptions.Equals must be false when a covered field differs, true when none does, and symmetric; non-trivial = exactly one covered field differs")
	rapid.Check(t, func(t *rapid.T) {
		c := gen.Full
		c.EmptyMetaKey = false
		a := gen.Options(c).Draw(t, "a")
		b := cmpx.NormOpts(a, cmpx.Norm{})
		nd := rapid.IntRange(0, 2).Draw(t, "ndeltas")
		var deltas []string
		for i := 0; i < nd; i++ {
			d := rapid.SampledFrom([]string{"name", "mode", "rmin", "rmax", "shard", "ua", "expire", "meta-add", "meta-rm", "meta-val", "origin-add", "origin-rm"}).Draw(t, "delta")
			applyDelta(t, &b, d)
			deltas = append(deltas, d)
		}
		// covered fields: everything but PinUpdate (documented as ignored)
		cov := func(o api.PinOptions) string {
			o.PinUpdate = a.PinUpdate
			n := cmpx.NormOpts(o, cmpx.Norm{})
			// user allocations and origins are compared as sets by Equals
			return cmpx.Canon(sortedOpts(n))
		}
		same := cov(a) == cov(b)
		ab, ba := a.Equals(&b), b.Equals(&a)
		if ab != ba {
			t.Fatalf("PinOptions.Equals is not symmetric: a.Equals(b)=%v b.Equals(a)=%v deltas=%v\na=%s\nb=%s", ab, ba, deltas, cmpx.Canon(a), cmpx.Canon(b))
		}
		if ab != same {
			t.Fatalf("PinOptions.Equals=%v but options differ=%v deltas=%v\na=%s\nb=%s", ab, !same, deltas, cmpx.Canon(a), cmpx.Canon(b))
		}
		leg.Case(cmpx.Canon(a)+"|"+cmpx.Canon(b), !same)
	})
}

func TestReflectSanity(t *testing.T) {
	// the comparator must see unequal things as unequal
	a := &api.Pin{Cid: gen.Cids[0], Type: api.DataType}
	b := &api.Pin{Cid: gen.Cids[1], Type: api.DataType}
	if cmpx.Canon(a) == cmpx.Canon(b) || !reflect.DeepEqual(a, a) {
		t.Fatal("comparator broken")
	}
}
