package c08

import (
	"encoding/json"
	"net/url"
	"testing"

	"verifharness/internal/cmpx"
	"verifharness/internal/gen"
	"verifharness/internal/kf"

	"github.com/ipfs/ipfs-cluster/api"
	multiaddr "github.com/multiformats/go-multiaddr"
)

// Native fuzz targets (thorough tier). Seed corpus: valid encodings of a few
// fixed pins plus hostile constants. The oracle is inside the target.

func seedPins() []*api.Pin {
	m, _ := multiaddr.NewMultiaddr("/ip4/10.0.0.1/tcp/4001/p2p/" + gen.Peers[0].Pretty())
	a := api.PinCid(gen.Cids[0])
	b := api.PinCid(gen.Cids[1])
	b.Origins = []multiaddr.Multiaddr{m}
	b.Metadata = map[string]string{"k": "v", "": "x"}
	b.ExpireAt = gen.Base
	b.Allocations = gen.Peers[:3]
	b.PinUpdate = gen.Cids[2]
	c := api.PinCid(gen.Cids[4])
	c.Type = api.ShardType
	c.MaxDepth = 1
	c.Reference = &gen.Cids[5]
	return []*api.Pin{a, b, c}
}

func FuzzProtoUnmarshal(f *testing.F) {
	for _, p := range seedPins() {
		b, _ := p.ProtoMarshal()
		f.Add(b)
	}
	f.Add([]byte{})
	f.Add([]byte{0xff, 0xff, 0xff, 0xff, 0xff, 0xff, 0xff, 0xff, 0xff, 0x01})
	f.Fuzz(func(t *testing.T, in []byte) {
		var p api.Pin
		if err := p.ProtoUnmarshal(in); err != nil {
			return
		}
		b2, err := p.ProtoMarshal()
		if err != nil {
			t.Fatalf("decoded pin cannot be re-encoded: %v", err)
		}
		if wellFormed(&p) {
			var q api.Pin
			if err := q.ProtoUnmarshal(b2); err != nil {
				t.Fatalf("re-encoding does not decode: %v", err)
			}
			if a, b := cmpx.PinStr(&p, cmpx.Stored), cmpx.PinStr(&q, cmpx.Stored); a != b {
				t.Fatalf("fixpoint: %s", cmpx.Diff(a, b))
			}
		}
	})
}

func FuzzMsgpackPin(f *testing.F) {
	for _, p := range seedPins() {
		b, _ := mpEncode(p)
		f.Add(b)
	}
	f.Add([]byte{0xdf, 0xff, 0xff, 0xff, 0xff})
	f.Add([]byte{0xc1})
	f.Fuzz(func(t *testing.T, in []byte) {
		if kf.Open(KFAlloc) && hugeLen(in) {
			return // excluded by construction: known finding in the msgpack dependency
		}
		var p api.Pin
		var err error
		if n := allocated(func() { err = mpDecode(in, &p) }); n > allocBound {
			t.Fatalf("decode of %d bytes allocated %d MiB", len(in), n>>20)
		}
		if err != nil {
			return
		}
		b2, err := mpEncode(&p)
		if err != nil {
			t.Fatalf("decoded pin cannot be re-encoded: %v", err)
		}
		if wellFormed(&p) {
			var q api.Pin
			if err := mpDecode(b2, &q); err != nil {
				t.Fatalf("re-encoding does not decode: %v", err)
			}
			if a, b := cmpx.PinStr(&p, cmpx.Wire), cmpx.PinStr(&q, cmpx.Wire); a != b {
				t.Fatalf("fixpoint: %s", cmpx.Diff(a, b))
			}
		}
	})
}

func FuzzJSONPin(f *testing.F) {
	for _, p := range seedPins() {
		b, _ := json.Marshal(p)
		f.Add(b)
	}
	f.Add([]byte(`{"origins":[null],"cid":null,"allocations":[""],"expire_at":"9999-99-99"}`))
	f.Fuzz(func(t *testing.T, in []byte) {
		var p api.Pin
		if err := json.Unmarshal(in, &p); err != nil {
			return
		}
		b2, err := json.Marshal(&p)
		if err != nil {
			if p.ExpireAt.Year() < 0 || p.ExpireAt.Year() > 9999 {
				return // time.Time's own JSON range
			}
			t.Fatalf("decoded pin cannot be re-encoded: %v", err)
		}
		if wellFormed(&p) {
			var q api.Pin
			if err := json.Unmarshal(b2, &q); err != nil {
				t.Fatalf("re-encoding does not decode: %v", err)
			}
			if a, b := cmpx.PinStr(&p, cmpx.Wire), cmpx.PinStr(&q, cmpx.Wire); a != b {
				t.Fatalf("fixpoint: %s", cmpx.Diff(a, b))
			}
		}
	})
}

func FuzzFromQuery(f *testing.F) {
	for _, p := range seedPins() {
		s, _ := p.PinOptions.ToQuery()
		f.Add(s)
	}
	f.Add("replication=x&expire-in=1ns&origins=,,&meta-=a&pin-update=Qm")
	f.Fuzz(func(t *testing.T, in string) {
		vals, err := url.ParseQuery(in)
		if err != nil {
			return
		}
		var o api.PinOptions
		if err := o.FromQuery(vals); err == nil {
			if _, err := o.ToQuery(); err != nil {
				if o.ExpireAt.Year() < 0 || o.ExpireAt.Year() > 9999 {
					return
				}
				t.Fatalf("accepted options cannot be converted back: %v", err)
			}
		}
		vals2, _ := url.ParseQuery(in)
		if p, err := api.AddParamsFromQuery(vals2); err == nil {
			if _, err := p.ToQueryString(); err != nil {
				if p.ExpireAt.Year() < 0 || p.ExpireAt.Year() > 9999 {
					return
				}
				t.Fatalf("accepted add params cannot be converted back: %v", err)
			}
		}
	})
}
