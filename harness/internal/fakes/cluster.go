// Package fakes holds the harness-owned collaborators placed behind the
// component interfaces ipfs-cluster already has, and the fixture that builds
// a real ipfscluster.Cluster around them.
package fakes

import (
	"context"
	"errors"
	"fmt"
	"sort"
	"sync"
	"sync/atomic"
	"time"

	"verifharness/internal/gen"

	cid "github.com/ipfs/go-cid"
	ds "github.com/ipfs/go-datastore"
	dssync "github.com/ipfs/go-datastore/sync"
	ipfscluster "github.com/ipfs/ipfs-cluster"
	"github.com/ipfs/ipfs-cluster/allocator/ascendalloc"
	"github.com/ipfs/ipfs-cluster/allocator/descendalloc"
	"github.com/ipfs/ipfs-cluster/api"
	"github.com/ipfs/ipfs-cluster/monitor/pubsubmon"
	"github.com/ipfs/ipfs-cluster/observations"
	"github.com/ipfs/ipfs-cluster/state"
	"github.com/ipfs/ipfs-cluster/state/dsstate"
	libp2p "github.com/libp2p/go-libp2p"
	ic "github.com/libp2p/go-libp2p-core/crypto"
	host "github.com/libp2p/go-libp2p-core/host"
	peer "github.com/libp2p/go-libp2p-core/peer"
	rpc "github.com/libp2p/go-libp2p-gorpc"
	dual "github.com/libp2p/go-libp2p-kad-dht/dual"
	pubsub "github.com/libp2p/go-libp2p-pubsub"
	ma "github.com/multiformats/go-multiaddr"
)

// CopyPin deep-copies a pin.
func CopyPin(p *api.Pin) *api.Pin {
	if p == nil {
		return nil
	}
	q := *p
	q.Allocations = append([]peer.ID(nil), p.Allocations...)
	q.UserAllocations = append([]peer.ID(nil), p.UserAllocations...)
	q.Origins = append([]ma.Multiaddr(nil), p.Origins...)
	if p.Metadata != nil {
		q.Metadata = map[string]string{}
		for k, v := range p.Metadata {
			q.Metadata[k] = v
		}
	}
	if p.Reference != nil {
		r := *p.Reference
		q.Reference = &r
	}
	return &q
}

// LogEntry is one LogPin/LogUnpin call seen by the fake consensus.
type LogEntry struct {
	Unpin bool
	Pin   *api.Pin
	By    peer.ID
}

// SharedState is the consensus state shared by one or more fake consensus
// components: one pinset (a real dsstate, so the stored form is the real
// protobuf), one peerset, one log of calls.
type SharedState struct {
	mu    sync.Mutex
	St    *dsstate.State
	peers []peer.ID
	Log   []LogEntry
	// FailLog, when set, makes LogPin/LogUnpin fail without effect.
	FailLog error
}

// NewSharedState returns an empty state.
func NewSharedState() *SharedState {
	st, err := dsstate.New(dssync.MutexWrap(ds.NewMapDatastore()), "/pins", nil)
	if err != nil {
		panic(err)
	}
	return &SharedState{St: st}
}

// SetPeers sets the peerset.
func (s *SharedState) SetPeers(p []peer.ID) {
	s.mu.Lock()
	s.peers = append([]peer.ID(nil), p...)
	s.mu.Unlock()
}

// Peers returns the peerset.
func (s *SharedState) Peers() []peer.ID {
	s.mu.Lock()
	defer s.mu.Unlock()
	return append([]peer.ID(nil), s.peers...)
}

// Reset empties pinset and log.
func (s *SharedState) Reset() {
	s.mu.Lock()
	defer s.mu.Unlock()
	ctx := context.Background()
	pins, _ := s.St.List(ctx)
	for _, p := range pins {
		s.St.Rm(ctx, p.Cid)
	}
	s.Log = nil
	s.FailLog = nil
}

// TakeLog returns and clears the call log.
func (s *SharedState) TakeLog() []LogEntry {
	s.mu.Lock()
	defer s.mu.Unlock()
	l := s.Log
	s.Log = nil
	return l
}

// Pins lists the pinset sorted by CID string.
func (s *SharedState) Pins() []*api.Pin {
	pins, _ := s.St.List(context.Background())
	sort.Slice(pins, func(i, j int) bool { return pins[i].Cid.String() < pins[j].Cid.String() })
	return pins
}

// Put writes a pin directly (test setup, not logged).
func (s *SharedState) Put(p *api.Pin) {
	if err := s.St.Add(context.Background(), p); err != nil {
		panic(err)
	}
}

// Consensus is a fake consensus component over a SharedState.
type Consensus struct {
	S     *SharedState
	ID    peer.ID
	ready chan struct{}
}

// NewConsensus returns a ready fake consensus.
func NewConsensus(s *SharedState, id peer.ID) *Consensus {
	c := &Consensus{S: s, ID: id, ready: make(chan struct{})}
	close(c.ready)
	return c
}

func (c *Consensus) SetClient(*rpc.Client)          {}
func (c *Consensus) Shutdown(context.Context) error { return nil }
func (c *Consensus) Ready(context.Context) <-chan struct{} {
	return c.ready
}
func (c *Consensus) LogPin(ctx context.Context, p *api.Pin) error {
	c.S.mu.Lock()
	defer c.S.mu.Unlock()
	if c.S.FailLog != nil {
		return c.S.FailLog
	}
	c.S.Log = append(c.S.Log, LogEntry{Pin: CopyPin(p), By: c.ID})
	return c.S.St.Add(ctx, p)
}
func (c *Consensus) LogUnpin(ctx context.Context, p *api.Pin) error {
	c.S.mu.Lock()
	defer c.S.mu.Unlock()
	if c.S.FailLog != nil {
		return c.S.FailLog
	}
	c.S.Log = append(c.S.Log, LogEntry{Unpin: true, Pin: CopyPin(p), By: c.ID})
	return c.S.St.Rm(ctx, p.Cid)
}
func (c *Consensus) AddPeer(ctx context.Context, p peer.ID) error {
	c.S.mu.Lock()
	defer c.S.mu.Unlock()
	for _, q := range c.S.peers {
		if q == p {
			return nil
		}
	}
	c.S.peers = append(c.S.peers, p)
	return nil
}
func (c *Consensus) RmPeer(ctx context.Context, p peer.ID) error {
	c.S.mu.Lock()
	defer c.S.mu.Unlock()
	out := c.S.peers[:0:0]
	for _, q := range c.S.peers {
		if q != p {
			out = append(out, q)
		}
	}
	c.S.peers = out
	return nil
}
func (c *Consensus) State(context.Context) (state.ReadOnly, error) { return c.S.St, nil }
func (c *Consensus) Leader(context.Context) (peer.ID, error) {
	p := c.S.Peers()
	if len(p) == 0 {
		return "", errors.New("no leader")
	}
	return p[0], nil
}
func (c *Consensus) WaitForSync(context.Context) error { return nil }
func (c *Consensus) Clean(context.Context) error       { return nil }
func (c *Consensus) Peers(context.Context) ([]peer.ID, error) {
	return c.S.Peers(), nil
}
func (c *Consensus) IsTrustedPeer(context.Context, peer.ID) bool { return true }
func (c *Consensus) Trust(context.Context, peer.ID) error        { return nil }
func (c *Consensus) Distrust(context.Context, peer.ID) error     { return nil }

// TrackEvent is one Track/Untrack call seen by a recording tracker.
type TrackEvent struct {
	Untrack bool
	Cid     cid.Cid
	Pin     *api.Pin
}

// Tracker is a recording pin tracker.
type Tracker struct {
	mu     sync.Mutex
	Events []TrackEvent
	ID     peer.ID
	// optional scripted answers (C06 cluster-wide view)
	StatusFn    func(c cid.Cid) *api.PinInfo
	StatusAllFn func(f api.TrackerStatus) []*api.PinInfo
}

func (t *Tracker) SetClient(*rpc.Client)          {}
func (t *Tracker) Shutdown(context.Context) error { return nil }
func (t *Tracker) Track(ctx context.Context, p *api.Pin) error {
	t.mu.Lock()
	t.Events = append(t.Events, TrackEvent{Cid: p.Cid, Pin: CopyPin(p)})
	t.mu.Unlock()
	return nil
}
func (t *Tracker) Untrack(ctx context.Context, c cid.Cid) error {
	t.mu.Lock()
	t.Events = append(t.Events, TrackEvent{Untrack: true, Cid: c})
	t.mu.Unlock()
	return nil
}
func (t *Tracker) StatusAll(ctx context.Context, f api.TrackerStatus) []*api.PinInfo {
	if t.StatusAllFn != nil {
		return t.StatusAllFn(f)
	}
	return nil
}
func (t *Tracker) Status(ctx context.Context, c cid.Cid) *api.PinInfo {
	if t.StatusFn != nil {
		return t.StatusFn(c)
	}
	return &api.PinInfo{Cid: c, Peer: t.ID, PinInfoShort: api.PinInfoShort{Status: api.TrackerStatusPinned, TS: time.Now()}}
}
func (t *Tracker) RecoverAll(context.Context) ([]*api.PinInfo, error) { return nil, nil }
func (t *Tracker) Recover(ctx context.Context, c cid.Cid) (*api.PinInfo, error) {
	return t.Status(ctx, c), nil
}

// Take returns and clears the recorded events.
func (t *Tracker) Take() []TrackEvent {
	t.mu.Lock()
	defer t.mu.Unlock()
	e := t.Events
	t.Events = nil
	return e
}

// IPFS is a fake IPFS connector: resolves generated paths, serves blocks.
type IPFS struct {
	mu      sync.Mutex
	Paths   map[string]cid.Cid
	Blocks  map[string][]byte
	PeerID  peer.ID
	Puts    []*api.NodeWithMeta
	FailPut func(n *api.NodeWithMeta) error
}

func (i *IPFS) SetClient(*rpc.Client)          {}
func (i *IPFS) Shutdown(context.Context) error { return nil }
func (i *IPFS) ID(context.Context) (*api.IPFSID, error) {
	return &api.IPFSID{ID: i.PeerID}, nil
}
func (i *IPFS) Pin(context.Context, *api.Pin) error  { return nil }
func (i *IPFS) Unpin(context.Context, cid.Cid) error { return nil }
func (i *IPFS) PinLsCid(context.Context, *api.Pin) (api.IPFSPinStatus, error) {
	return api.IPFSPinStatusRecursive, nil
}
func (i *IPFS) PinLs(context.Context, string) (map[string]api.IPFSPinStatus, error) {
	return map[string]api.IPFSPinStatus{}, nil
}
func (i *IPFS) ConnectSwarms(context.Context) error           { return nil }
func (i *IPFS) SwarmPeers(context.Context) ([]peer.ID, error) { return nil, nil }
func (i *IPFS) ConfigKey(string) (interface{}, error)         { return nil, errors.New("no config") }
func (i *IPFS) RepoStat(context.Context) (*api.IPFSRepoStat, error) {
	return &api.IPFSRepoStat{RepoSize: 1, StorageMax: 2}, nil
}
func (i *IPFS) RepoGC(context.Context) (*api.RepoGC, error) { return &api.RepoGC{}, nil }
func (i *IPFS) Resolve(ctx context.Context, path string) (cid.Cid, error) {
	i.mu.Lock()
	defer i.mu.Unlock()
	if c, ok := i.Paths[path]; ok {
		return c, nil
	}
	return cid.Undef, fmt.Errorf("cannot resolve %s", path)
}
func (i *IPFS) BlockPut(ctx context.Context, n *api.NodeWithMeta) error {
	i.mu.Lock()
	defer i.mu.Unlock()
	if i.FailPut != nil {
		if err := i.FailPut(n); err != nil {
			return err
		}
	}
	cp := *n
	cp.Data = append([]byte(nil), n.Data...)
	i.Puts = append(i.Puts, &cp)
	return nil
}

// Lock / Unlock guard direct access to the exported tables from a test.
func (i *IPFS) Lock()   { i.mu.Lock() }
func (i *IPFS) Unlock() { i.mu.Unlock() }

func (i *IPFS) BlockGet(ctx context.Context, c cid.Cid) ([]byte, error) {
	i.mu.Lock()
	defer i.mu.Unlock()
	if b, ok := i.Blocks[c.String()]; ok {
		return b, nil
	}
	return nil, errors.New("block not found")
}

// Informer is a fake informer whose name can be changed per case.
type Informer struct {
	name atomic.Value
	TTL  time.Duration
	Gets int64
}

func NewInformer(name string, ttl time.Duration) *Informer {
	i := &Informer{TTL: ttl}
	i.name.Store(name)
	return i
}
func (i *Informer) SetName(n string)               { i.name.Store(n) }
func (i *Informer) Name() string                   { return i.name.Load().(string) }
func (i *Informer) SetClient(*rpc.Client)          {}
func (i *Informer) Shutdown(context.Context) error { return nil }
func (i *Informer) GetMetric(context.Context) *api.Metric {
	atomic.AddInt64(&i.Gets, 1)
	m := &api.Metric{Name: i.Name(), Value: "1", Valid: true}
	m.SetTTL(i.TTL)
	return m
}

// APIComp is a fake API component: it only keeps the RPC client it is given.
type APIComp struct {
	mu     sync.Mutex
	Client *rpc.Client
}

func (a *APIComp) SetClient(c *rpc.Client) {
	a.mu.Lock()
	a.Client = c
	a.mu.Unlock()
}
func (a *APIComp) Shutdown(context.Context) error { return nil }

// RPC returns the local RPC client of the cluster.
func (a *APIComp) RPC() *rpc.Client {
	a.mu.Lock()
	defer a.mu.Unlock()
	return a.Client
}

// Monitor is a fake peer monitor: the harness sets the latest metrics and
// writes alerts.
type Monitor struct {
	mu        sync.Mutex
	metrics   map[string][]*api.Metric
	AlertCh   chan *api.Alert
	Published []*api.Metric
	PubTimes  []time.Time
	PubErrs   []error
	FailPub   func(n int, m *api.Metric) error
	npub      int
}

func NewMonitor() *Monitor {
	return &Monitor{metrics: map[string][]*api.Metric{}, AlertCh: make(chan *api.Alert, 4096)}
}
func (m *Monitor) SetClient(*rpc.Client)          {}
func (m *Monitor) Shutdown(context.Context) error { return nil }
func (m *Monitor) LogMetric(ctx context.Context, mt *api.Metric) error {
	return nil
}
func (m *Monitor) PublishMetric(ctx context.Context, mt *api.Metric) error {
	m.mu.Lock()
	defer m.mu.Unlock()
	cp := *mt
	m.Published = append(m.Published, &cp)
	m.PubTimes = append(m.PubTimes, time.Now())
	m.npub++
	var err error
	if m.FailPub != nil {
		err = m.FailPub(m.npub, &cp)
	}
	m.PubErrs = append(m.PubErrs, err)
	return err
}

// TakePublishedFull returns and clears publications, their times and outcomes.
func (m *Monitor) TakePublishedFull() ([]*api.Metric, []time.Time, []error) {
	m.mu.Lock()
	defer m.mu.Unlock()
	p, t, e := m.Published, m.PubTimes, m.PubErrs
	m.Published, m.PubTimes, m.PubErrs = nil, nil, nil
	return p, t, e
}

// Set replaces the latest metrics of a name.
func (m *Monitor) Set(name string, ms []*api.Metric) {
	m.mu.Lock()
	m.metrics[name] = ms
	m.mu.Unlock()
}
func (m *Monitor) LatestMetrics(ctx context.Context, name string) []*api.Metric {
	m.mu.Lock()
	defer m.mu.Unlock()
	out := make([]*api.Metric, len(m.metrics[name]))
	copy(out, m.metrics[name])
	return out
}
func (m *Monitor) MetricNames(context.Context) []string {
	m.mu.Lock()
	defer m.mu.Unlock()
	var n []string
	for k := range m.metrics {
		n = append(n, k)
	}
	sort.Strings(n)
	return n
}
func (m *Monitor) Alerts() <-chan *api.Alert { return m.AlertCh }

// TakePublished returns and clears the recorded publications.
func (m *Monitor) TakePublished() ([]*api.Metric, []time.Time) {
	m.mu.Lock()
	defer m.mu.Unlock()
	p, t := m.Published, m.PubTimes
	m.Published, m.PubTimes, m.PubErrs = nil, nil, nil
	return p, t
}

// NewHost returns a libp2p host with the given key; without listen addresses
// unless listen is set (then 127.0.0.1 TCP).
func NewHost(priv ic.PrivKey, listen bool) host.Host {
	opts := []libp2p.Option{libp2p.Identity(priv)}
	if listen {
		opts = append(opts, libp2p.ListenAddrStrings("/ip4/127.0.0.1/tcp/0"))
	} else {
		opts = append(opts, libp2p.NoListenAddrs)
	}
	h, err := libp2p.New(context.Background(), opts...)
	if err != nil {
		panic(err)
	}
	return h
}

// ClusterOpts configures the fixture.
type ClusterOpts struct {
	Key            ic.PrivKey // default gen.PeerKeys[0]
	Shared         *SharedState
	RealMonitor    bool   // real pubsubmon.Monitor instead of the fake
	Allocator      string // "ascend" (default) or "descend"
	Listen         bool
	InformerTTL    time.Duration
	Mutate         func(cfg *ipfscluster.Config)
	BeforeStart    func(m *Monitor)      // configure the fake monitor before the cluster starts publishing
	Host           host.Host             // use this host instead of creating one
	Consensus      ipfscluster.Consensus // use this consensus component instead of the fake
	DHT            bool                  // give the cluster a real dual DHT (needed by Join)
	ThroughJSON    bool                  // pass the final cluster configuration through ToJSON, LoadJSON and ApplyEnvVars
	ExtraInformers []string              // names of additional informers (same TTL) given to the cluster
}

// ClusterFixture is a real Cluster with harness components.
type ClusterFixture struct {
	C       *ipfscluster.Cluster
	Cfg     *ipfscluster.Config
	S       *SharedState
	Cons    *Consensus
	Tracker *Tracker
	IPFS    *IPFS
	Inf     *Informer
	API     *APIComp
	Mon     *Monitor           // fake monitor (nil with RealMonitor)
	RealMon *pubsubmon.Monitor // real monitor (nil otherwise)
	Host    host.Host
	ID      peer.ID
	cancel  func()
}

// NewCluster builds the fixture and waits until the cluster is ready.
func NewCluster(o ClusterOpts) *ClusterFixture {
	f := NewClusterNoWait(o)
	select {
	case <-f.C.Ready():
	case <-time.After(30 * time.Second):
		panic("VERIF-INFRA: cluster fixture not ready after 30s")
	}
	f.waitBoot()
	return f
}

// NewClusterNoWait builds the fixture without waiting for readiness.
func NewClusterNoWait(o ClusterOpts) *ClusterFixture {
	ctx, cancel := context.WithCancel(context.Background())
	if o.Key == nil {
		o.Key = gen.PeerKeys[0]
	}
	if o.Shared == nil {
		o.Shared = NewSharedState()
	}
	if o.InformerTTL == 0 {
		o.InformerTTL = 2 * time.Hour
	}
	h := o.Host
	if h == nil {
		h = NewHost(o.Key, o.Listen)
	}
	f := &ClusterFixture{S: o.Shared, Host: h, ID: h.ID(), cancel: cancel}
	cfg := &ipfscluster.Config{}
	cfg.Default()
	cfg.Peername = "verif"
	cfg.StateSyncInterval = time.Hour
	cfg.PinRecoverInterval = time.Hour
	cfg.MonitorPingInterval = time.Hour
	cfg.PeerWatchInterval = time.Hour
	cfg.MDNSInterval = 0
	cfg.PeerstoreFile = ""
	cfg.ReplicationFactorMin = -1
	cfg.ReplicationFactorMax = -1
	if o.Mutate != nil {
		o.Mutate(cfg)
	}
	if o.ThroughJSON {
		// the daemon's route: the cluster section as JSON, LoadJSON, then
		// the environment applied on top
		raw, err := cfg.ToJSON()
		if err != nil {
			panic(err)
		}
		cfg2 := &ipfscluster.Config{}
		if err := cfg2.LoadJSON(raw); err != nil {
			panic(err)
		}
		if err := cfg2.ApplyEnvVars(); err != nil {
			panic(err)
		}
		// what the section does not carry, or where zero means "default"
		cfg2.MDNSInterval = cfg.MDNSInterval
		cfg2.PeerstoreFile = cfg.PeerstoreFile
		cfg2.Tracing = cfg.Tracing
		cfg2.RPCPolicy = cfg.RPCPolicy
		cfg = cfg2
	}
	f.Cfg = cfg
	f.Cons = NewConsensus(o.Shared, h.ID())
	f.Tracker = &Tracker{ID: h.ID()}
	f.IPFS = &IPFS{Paths: map[string]cid.Cid{}, Blocks: map[string][]byte{}, PeerID: h.ID()}
	f.Inf = NewInformer("boot", o.InformerTTL)
	f.API = &APIComp{}
	var mon ipfscluster.PeerMonitor
	if o.RealMonitor {
		psub, err := pubsub.NewGossipSub(ctx, h)
		if err != nil {
			panic(err)
		}
		mcfg := &pubsubmon.Config{}
		mcfg.Default()
		mcfg.CheckInterval = time.Hour
		rm, err := pubsubmon.New(ctx, mcfg, psub, func(context.Context) ([]peer.ID, error) { return o.Shared.Peers(), nil })
		if err != nil {
			panic(err)
		}
		f.RealMon = rm
		mon = rm
	} else {
		f.Mon = NewMonitor()
		if o.BeforeStart != nil {
			o.BeforeStart(f.Mon)
		}
		mon = f.Mon
	}
	var alloc ipfscluster.PinAllocator
	if o.Allocator == "descend" {
		alloc = descendalloc.NewAllocator()
	} else {
		alloc = ascendalloc.NewAllocator()
	}
	tracer, err := observations.SetupTracing(&observations.TracingConfig{})
	if err != nil {
		panic(err)
	}
	var cons ipfscluster.Consensus = f.Cons
	if o.Consensus != nil {
		cons = o.Consensus
	}
	var idht *dual.DHT
	if o.DHT {
		idht, err = dual.New(ctx, h)
		if err != nil {
			panic(err)
		}
	}
	informers := []ipfscluster.Informer{f.Inf}
	for _, n := range o.ExtraInformers {
		informers = append(informers, NewInformer(n, o.InformerTTL))
	}
	c, err := ipfscluster.NewCluster(ctx, h, idht, cfg, dssync.MutexWrap(ds.NewMapDatastore()), cons,
		[]ipfscluster.API{f.API}, f.IPFS, f.Tracker, mon, alloc, informers, tracer)
	if err != nil {
		panic(err)
	}
	f.C = c
	return f
}

func (f *ClusterFixture) waitBoot() {
	ctx := context.Background()
	if f.RealMon != nil {
		// The cluster publishes its own ping and informer metric once at
		// start (then every hour); they come back through pubsub
		// asynchronously. Wait for both so that no metric arrives in the
		// middle of a case.
		deadline := time.Now().Add(20 * time.Second)
		for {
			gotPing, gotInf := false, false
			for _, n := range f.RealMon.MetricNames(ctx) {
				if n == "boot" {
					gotInf = true
				}
				if n == "ping" {
					gotPing = true
				}
			}
			if gotPing && gotInf {
				break
			}
			if time.Now().After(deadline) {
				panic("VERIF-INFRA: boot metrics did not arrive")
			}
			time.Sleep(10 * time.Millisecond)
		}
	}
}

// Close shuts the fixture down.
func (f *ClusterFixture) Close() {
	f.C.Shutdown(context.Background())
	f.Host.Close()
	f.cancel()
}
