package fakes

import (
	"context"
	"errors"
	"strings"
	"sync"
	"time"

	ds "github.com/ipfs/go-datastore"
	dsq "github.com/ipfs/go-datastore/query"
	dssync "github.com/ipfs/go-datastore/sync"
	"github.com/ipfs/ipfs-cluster/consensus/crdt"
	libp2p "github.com/libp2p/go-libp2p"
	"github.com/libp2p/go-libp2p-core/control"
	ic "github.com/libp2p/go-libp2p-core/crypto"
	host "github.com/libp2p/go-libp2p-core/host"
	"github.com/libp2p/go-libp2p-core/network"
	peer "github.com/libp2p/go-libp2p-core/peer"
	rpc "github.com/libp2p/go-libp2p-gorpc"
	pubsub "github.com/libp2p/go-libp2p-pubsub"
	routinghelpers "github.com/libp2p/go-libp2p-routing-helpers"
	ma "github.com/multiformats/go-multiaddr"
)

// Gater lets the harness own the connectivity graph.
type Gater struct {
	mu      sync.Mutex
	blocked map[peer.ID]bool
}

func NewGater() *Gater { return &Gater{blocked: map[peer.ID]bool{}} }

func (g *Gater) Block(p peer.ID, b bool) {
	g.mu.Lock()
	g.blocked[p] = b
	g.mu.Unlock()
}
func (g *Gater) ok(p peer.ID) bool {
	g.mu.Lock()
	defer g.mu.Unlock()
	return !g.blocked[p]
}
func (g *Gater) InterceptPeerDial(p peer.ID) bool                 { return g.ok(p) }
func (g *Gater) InterceptAddrDial(p peer.ID, _ ma.Multiaddr) bool { return g.ok(p) }
func (g *Gater) InterceptAccept(network.ConnMultiaddrs) bool      { return true }
func (g *Gater) InterceptSecured(_ network.Direction, p peer.ID, _ network.ConnMultiaddrs) bool {
	return g.ok(p)
}
func (g *Gater) InterceptUpgraded(network.Conn) (bool, control.DisconnectReason) { return true, 0 }

// ErrInjectedStore is returned by the fault store.
var ErrInjectedStore = errors.New("injected datastore failure")

// FaultStore wraps a datastore; writes to keys containing FailSub fail while
// it is set.
type FaultStore struct {
	ds.Batching
	mu      sync.Mutex
	failSub string
	Fails   int
}

func NewFaultStore() *FaultStore {
	return &FaultStore{Batching: dssync.MutexWrap(ds.NewMapDatastore())}
}

// FailOn makes Put/Delete of keys containing sub fail ("" = no faults).
func (f *FaultStore) FailOn(sub string) {
	f.mu.Lock()
	f.failSub = sub
	f.mu.Unlock()
}
func (f *FaultStore) bad(k ds.Key) bool {
	f.mu.Lock()
	defer f.mu.Unlock()
	if f.failSub != "" && strings.Contains(k.String(), f.failSub) {
		f.Fails++
		return true
	}
	return false
}
func (f *FaultStore) Put(k ds.Key, v []byte) error {
	if f.bad(k) {
		return ErrInjectedStore
	}
	return f.Batching.Put(k, v)
}
func (f *FaultStore) Delete(k ds.Key) error {
	if f.bad(k) {
		return ErrInjectedStore
	}
	return f.Batching.Delete(k)
}
func (f *FaultStore) Query(q dsq.Query) (dsq.Results, error) { return f.Batching.Query(q) }

type faultBatch struct {
	f   *FaultStore
	b   ds.Batch
	err error
}

func (f *FaultStore) Batch() (ds.Batch, error) {
	b, err := f.Batching.Batch()
	if err != nil {
		return nil, err
	}
	return &faultBatch{f: f, b: b}, nil
}
func (b *faultBatch) Put(k ds.Key, v []byte) error {
	if b.f.bad(k) {
		b.err = ErrInjectedStore
		return ErrInjectedStore
	}
	return b.b.Put(k, v)
}
func (b *faultBatch) Delete(k ds.Key) error {
	if b.f.bad(k) {
		b.err = ErrInjectedStore
		return ErrInjectedStore
	}
	return b.b.Delete(k)
}
func (b *faultBatch) Commit() error {
	if b.err != nil {
		return b.err
	}
	return b.b.Commit()
}

// CRDTReplica is a real crdt.Consensus on a loopback host with a recording
// PinTracker/PeerMonitor RPC service.
type CRDTReplica struct {
	H      host.Host
	Cons   *crdt.Consensus
	Store  *FaultStore
	Rec    *Recorder
	Gater  *Gater
	Cfg    *crdt.Config
	cancel func()
}

// CRDTProto is the RPC protocol of the replica fixtures.
const CRDTProto = "/verif/crdt/rpc"

// NewCRDTReplica starts a replica and waits until it is ready.
func NewCRDTReplica(key ic.PrivKey, mutate func(cfg *crdt.Config)) *CRDTReplica {
	ctx, cancel := context.WithCancel(context.Background())
	g := NewGater()
	h, err := libp2p.New(ctx, libp2p.Identity(key), libp2p.ListenAddrStrings("/ip4/127.0.0.1/tcp/0"), libp2p.ConnectionGater(g))
	if err != nil {
		panic(err)
	}
	psub, err := pubsub.NewGossipSub(ctx, h, pubsub.WithMessageSigning(true), pubsub.WithStrictSignatureVerification(true))
	if err != nil {
		panic(err)
	}
	r := NewCRDTReplicaOn(h, psub, mutate)
	r.Gater = g
	inner := r.cancel
	r.cancel = func() { inner(); cancel() }
	return r
}

// NewCRDTReplicaOn starts a replica on a host and pubsub instance the
// caller made (for instance the ones of ipfscluster.NewClusterHost, or a
// misbehaving pubsub).
func NewCRDTReplicaOn(h host.Host, psub *pubsub.PubSub, mutate func(cfg *crdt.Config)) *CRDTReplica {
	ctx, cancel := context.WithCancel(context.Background())
	cfg := &crdt.Config{}
	cfg.Default()
	cfg.RebroadcastInterval = 300 * time.Millisecond
	cfg.TrustAll = false
	cfg.TrustedPeers = nil
	if mutate != nil {
		mutate(cfg)
	}
	store := NewFaultStore()
	cons, err := crdt.New(h, routinghelpers.Null{}, psub, cfg, store)
	if err != nil {
		panic(err)
	}
	rec := NewRecorder()
	s := rpc.NewServer(h, CRDTProto)
	if err := s.RegisterName("PinTracker", &TrackerSvc{rec}); err != nil {
		panic(err)
	}
	if err := s.RegisterName("PeerMonitor", &MonitorSvc{rec}); err != nil {
		panic(err)
	}
	cons.SetClient(rpc.NewClientWithServer(h, CRDTProto, s))
	select {
	case <-cons.Ready(ctx):
	case <-time.After(30 * time.Second):
		panic("VERIF-INFRA: crdt replica not ready")
	}
	return &CRDTReplica{H: h, Cons: cons, Store: store, Rec: rec, Gater: NewGater(), Cfg: cfg, cancel: cancel}
}

// Connect dials o.
func (r *CRDTReplica) Connect(o *CRDTReplica) error {
	ctx, cancel := context.WithTimeout(context.Background(), 5*time.Second)
	defer cancel()
	return r.H.Connect(ctx, peer.AddrInfo{ID: o.H.ID(), Addrs: o.H.Addrs()})
}

// Partition cuts the link between r and o; Heal restores it.
func (r *CRDTReplica) Partition(o *CRDTReplica) {
	r.Gater.Block(o.H.ID(), true)
	o.Gater.Block(r.H.ID(), true)
	r.H.Network().ClosePeer(o.H.ID())
	o.H.Network().ClosePeer(r.H.ID())
}
func (r *CRDTReplica) Heal(o *CRDTReplica) error {
	r.Gater.Block(o.H.ID(), false)
	o.Gater.Block(r.H.ID(), false)
	return r.Connect(o)
}

// Close shuts the replica down.
func (r *CRDTReplica) Close() {
	r.Cons.Shutdown(context.Background())
	r.H.Close()
	r.cancel()
}
