package fakes

import (
	"context"
	"fmt"
	"reflect"
	"sync"

	cid "github.com/ipfs/go-cid"
	"github.com/ipfs/ipfs-cluster/api"
	peer "github.com/libp2p/go-libp2p-core/peer"
	rpc "github.com/libp2p/go-libp2p-gorpc"
)

// RPCCall is one call received by a recording RPC service.
type RPCCall struct {
	Name string // "Cluster.Pin"
	Arg  interface{}
}

// Recorder records RPC calls and answers them with configured responses.
type Recorder struct {
	mu    sync.Mutex
	Calls []RPCCall
	// Respond, when set for a method name, produces (response value, error).
	// The response value is assigned to *out when its type fits.
	Respond map[string]func(arg interface{}) (interface{}, error)
}

// NewRecorder returns an empty recorder.
func NewRecorder() *Recorder {
	return &Recorder{Respond: map[string]func(arg interface{}) (interface{}, error){}}
}

func copyArg(in interface{}) interface{} {
	switch v := in.(type) {
	case *api.Pin:
		return CopyPin(v)
	case *api.PinPath:
		c := *v
		c.PinOptions = CopyPin(&api.Pin{PinOptions: v.PinOptions}).PinOptions
		return &c
	case *api.NodeWithMeta:
		c := *v
		c.Data = append([]byte(nil), v.Data...)
		return &c
	}
	return in
}

// Do records the call and fills out.
func (r *Recorder) Do(name string, in interface{}, out interface{}) error {
	r.mu.Lock()
	r.Calls = append(r.Calls, RPCCall{name, copyArg(in)})
	f := r.Respond[name]
	r.mu.Unlock()
	if f == nil {
		return nil
	}
	resp, err := f(in)
	if err != nil {
		return err
	}
	if resp != nil && out != nil {
		ov := reflect.ValueOf(out).Elem()
		rv := reflect.ValueOf(resp)
		if rv.Type().AssignableTo(ov.Type()) {
			ov.Set(rv)
		} else if rv.Kind() == reflect.Ptr && rv.Elem().Type().AssignableTo(ov.Type()) {
			ov.Set(rv.Elem())
		} else {
			panic(fmt.Sprintf("recorder: response %T does not fit %T for %s", resp, out, name))
		}
	}
	return nil
}

// Take returns and clears the recorded calls.
func (r *Recorder) Take() []RPCCall {
	r.mu.Lock()
	defer r.mu.Unlock()
	c := r.Calls
	r.Calls = nil
	return c
}

// Set installs a responder.
func (r *Recorder) Set(name string, f func(arg interface{}) (interface{}, error)) {
	r.mu.Lock()
	r.Respond[name] = f
	r.mu.Unlock()
}

// Reset clears calls and responders.
func (r *Recorder) Reset() {
	r.mu.Lock()
	r.Calls = nil
	r.Respond = map[string]func(arg interface{}) (interface{}, error){}
	r.mu.Unlock()
}

// ClusterSvc mirrors ClusterRPCAPI.
type ClusterSvc struct{ R *Recorder }

func (s *ClusterSvc) ID(ctx context.Context, in struct{}, out *api.ID) error {
	return s.R.Do("Cluster.ID", in, out)
}
func (s *ClusterSvc) Pin(ctx context.Context, in *api.Pin, out *api.Pin) error {
	return s.R.Do("Cluster.Pin", in, out)
}
func (s *ClusterSvc) Unpin(ctx context.Context, in *api.Pin, out *api.Pin) error {
	return s.R.Do("Cluster.Unpin", in, out)
}
func (s *ClusterSvc) PinPath(ctx context.Context, in *api.PinPath, out *api.Pin) error {
	return s.R.Do("Cluster.PinPath", in, out)
}
func (s *ClusterSvc) UnpinPath(ctx context.Context, in *api.PinPath, out *api.Pin) error {
	return s.R.Do("Cluster.UnpinPath", in, out)
}
func (s *ClusterSvc) Pins(ctx context.Context, in struct{}, out *[]*api.Pin) error {
	return s.R.Do("Cluster.Pins", in, out)
}
func (s *ClusterSvc) PinGet(ctx context.Context, in cid.Cid, out *api.Pin) error {
	return s.R.Do("Cluster.PinGet", in, out)
}
func (s *ClusterSvc) Version(ctx context.Context, in struct{}, out *api.Version) error {
	return s.R.Do("Cluster.Version", in, out)
}
func (s *ClusterSvc) Peers(ctx context.Context, in struct{}, out *[]*api.ID) error {
	return s.R.Do("Cluster.Peers", in, out)
}
func (s *ClusterSvc) PeerAdd(ctx context.Context, in peer.ID, out *api.ID) error {
	return s.R.Do("Cluster.PeerAdd", in, out)
}
func (s *ClusterSvc) ConnectGraph(ctx context.Context, in struct{}, out *api.ConnectGraph) error {
	return s.R.Do("Cluster.ConnectGraph", in, out)
}
func (s *ClusterSvc) PeerRemove(ctx context.Context, in peer.ID, out *struct{}) error {
	return s.R.Do("Cluster.PeerRemove", in, out)
}
func (s *ClusterSvc) Join(ctx context.Context, in api.Multiaddr, out *struct{}) error {
	return s.R.Do("Cluster.Join", in, out)
}
func (s *ClusterSvc) StatusAll(ctx context.Context, in api.TrackerStatus, out *[]*api.GlobalPinInfo) error {
	return s.R.Do("Cluster.StatusAll", in, out)
}
func (s *ClusterSvc) StatusAllLocal(ctx context.Context, in api.TrackerStatus, out *[]*api.PinInfo) error {
	return s.R.Do("Cluster.StatusAllLocal", in, out)
}
func (s *ClusterSvc) Status(ctx context.Context, in cid.Cid, out *api.GlobalPinInfo) error {
	return s.R.Do("Cluster.Status", in, out)
}
func (s *ClusterSvc) StatusLocal(ctx context.Context, in cid.Cid, out *api.PinInfo) error {
	return s.R.Do("Cluster.StatusLocal", in, out)
}
func (s *ClusterSvc) RecoverAll(ctx context.Context, in struct{}, out *[]*api.GlobalPinInfo) error {
	return s.R.Do("Cluster.RecoverAll", in, out)
}
func (s *ClusterSvc) RecoverAllLocal(ctx context.Context, in struct{}, out *[]*api.PinInfo) error {
	return s.R.Do("Cluster.RecoverAllLocal", in, out)
}
func (s *ClusterSvc) Recover(ctx context.Context, in cid.Cid, out *api.GlobalPinInfo) error {
	return s.R.Do("Cluster.Recover", in, out)
}
func (s *ClusterSvc) RecoverLocal(ctx context.Context, in cid.Cid, out *api.PinInfo) error {
	return s.R.Do("Cluster.RecoverLocal", in, out)
}
func (s *ClusterSvc) BlockAllocate(ctx context.Context, in *api.Pin, out *[]peer.ID) error {
	return s.R.Do("Cluster.BlockAllocate", in, out)
}
func (s *ClusterSvc) RepoGC(ctx context.Context, in struct{}, out *api.GlobalRepoGC) error {
	return s.R.Do("Cluster.RepoGC", in, out)
}
func (s *ClusterSvc) RepoGCLocal(ctx context.Context, in struct{}, out *api.RepoGC) error {
	return s.R.Do("Cluster.RepoGCLocal", in, out)
}
func (s *ClusterSvc) SendInformerMetric(ctx context.Context, in struct{}, out *api.Metric) error {
	return s.R.Do("Cluster.SendInformerMetric", in, out)
}
func (s *ClusterSvc) SendInformersMetrics(ctx context.Context, in struct{}, out *[]*api.Metric) error {
	return s.R.Do("Cluster.SendInformersMetrics", in, out)
}
func (s *ClusterSvc) Alerts(ctx context.Context, in struct{}, out *[]api.Alert) error {
	return s.R.Do("Cluster.Alerts", in, out)
}

// IPFSSvc mirrors IPFSConnectorRPCAPI.
type IPFSSvc struct{ R *Recorder }

func (s *IPFSSvc) Pin(ctx context.Context, in *api.Pin, out *struct{}) error {
	return s.R.Do("IPFSConnector.Pin", in, out)
}
func (s *IPFSSvc) Unpin(ctx context.Context, in *api.Pin, out *struct{}) error {
	return s.R.Do("IPFSConnector.Unpin", in, out)
}
func (s *IPFSSvc) PinLsCid(ctx context.Context, in *api.Pin, out *api.IPFSPinStatus) error {
	return s.R.Do("IPFSConnector.PinLsCid", in, out)
}
func (s *IPFSSvc) PinLs(ctx context.Context, in string, out *map[string]api.IPFSPinStatus) error {
	return s.R.Do("IPFSConnector.PinLs", in, out)
}
func (s *IPFSSvc) ConfigKey(ctx context.Context, in string, out *interface{}) error {
	return s.R.Do("IPFSConnector.ConfigKey", in, out)
}
func (s *IPFSSvc) RepoStat(ctx context.Context, in struct{}, out *api.IPFSRepoStat) error {
	return s.R.Do("IPFSConnector.RepoStat", in, out)
}
func (s *IPFSSvc) SwarmPeers(ctx context.Context, in struct{}, out *[]peer.ID) error {
	return s.R.Do("IPFSConnector.SwarmPeers", in, out)
}
func (s *IPFSSvc) BlockPut(ctx context.Context, in *api.NodeWithMeta, out *struct{}) error {
	return s.R.Do("IPFSConnector.BlockPut", in, out)
}
func (s *IPFSSvc) BlockGet(ctx context.Context, in cid.Cid, out *[]byte) error {
	return s.R.Do("IPFSConnector.BlockGet", in, out)
}
func (s *IPFSSvc) Resolve(ctx context.Context, in string, out *cid.Cid) error {
	return s.R.Do("IPFSConnector.Resolve", in, out)
}

// ConsensusSvc mirrors ConsensusRPCAPI.
type ConsensusSvc struct{ R *Recorder }

func (s *ConsensusSvc) LogPin(ctx context.Context, in *api.Pin, out *struct{}) error {
	return s.R.Do("Consensus.LogPin", in, out)
}
func (s *ConsensusSvc) LogUnpin(ctx context.Context, in *api.Pin, out *struct{}) error {
	return s.R.Do("Consensus.LogUnpin", in, out)
}
func (s *ConsensusSvc) AddPeer(ctx context.Context, in peer.ID, out *struct{}) error {
	return s.R.Do("Consensus.AddPeer", in, out)
}
func (s *ConsensusSvc) RmPeer(ctx context.Context, in peer.ID, out *struct{}) error {
	return s.R.Do("Consensus.RmPeer", in, out)
}
func (s *ConsensusSvc) Peers(ctx context.Context, in struct{}, out *[]peer.ID) error {
	return s.R.Do("Consensus.Peers", in, out)
}

// MonitorSvc mirrors PeerMonitorRPCAPI.
type MonitorSvc struct{ R *Recorder }

func (s *MonitorSvc) LatestMetrics(ctx context.Context, in string, out *[]*api.Metric) error {
	return s.R.Do("PeerMonitor.LatestMetrics", in, out)
}
func (s *MonitorSvc) MetricNames(ctx context.Context, in struct{}, out *[]string) error {
	return s.R.Do("PeerMonitor.MetricNames", in, out)
}

// TrackerSvc mirrors PinTrackerRPCAPI.
type TrackerSvc struct{ R *Recorder }

func (s *TrackerSvc) Track(ctx context.Context, in *api.Pin, out *struct{}) error {
	return s.R.Do("PinTracker.Track", in, out)
}
func (s *TrackerSvc) Untrack(ctx context.Context, in *api.Pin, out *struct{}) error {
	return s.R.Do("PinTracker.Untrack", in, out)
}
func (s *TrackerSvc) StatusAll(ctx context.Context, in api.TrackerStatus, out *[]*api.PinInfo) error {
	return s.R.Do("PinTracker.StatusAll", in, out)
}
func (s *TrackerSvc) Status(ctx context.Context, in cid.Cid, out *api.PinInfo) error {
	return s.R.Do("PinTracker.Status", in, out)
}
func (s *TrackerSvc) RecoverAll(ctx context.Context, in struct{}, out *[]*api.PinInfo) error {
	return s.R.Do("PinTracker.RecoverAll", in, out)
}
func (s *TrackerSvc) Recover(ctx context.Context, in cid.Cid, out *api.PinInfo) error {
	return s.R.Do("PinTracker.Recover", in, out)
}

// NewRecordingRPC returns a local RPC client whose server has every service
// registered over one recorder.
func NewRecordingRPC(r *Recorder) *rpc.Client {
	s := rpc.NewServer(nil, "verif")
	for name, svc := range map[string]interface{}{
		"Cluster": &ClusterSvc{r}, "IPFSConnector": &IPFSSvc{r}, "Consensus": &ConsensusSvc{r}, "PeerMonitor": &MonitorSvc{r}, "PinTracker": &TrackerSvc{r},
	} {
		if err := s.RegisterName(name, svc); err != nil {
			panic(err)
		}
	}
	return rpc.NewClientWithServer(nil, "verif", s)
}
