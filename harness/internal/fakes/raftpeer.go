package fakes

import (
	"context"
	"errors"
	"fmt"
	"github.com/ipfs/go-datastore/query"
	"path/filepath"
	"runtime"
	"sort"
	"strings"
	"sync"
	"sync/atomic"
	"time"

	ds "github.com/ipfs/go-datastore"
	dssync "github.com/ipfs/go-datastore/sync"
	"github.com/ipfs/ipfs-cluster/api"
	"github.com/ipfs/ipfs-cluster/consensus/raft"
	ic "github.com/libp2p/go-libp2p-core/crypto"
	host "github.com/libp2p/go-libp2p-core/host"
	peer "github.com/libp2p/go-libp2p-core/peer"
	peerstore "github.com/libp2p/go-libp2p-core/peerstore"
	rpc "github.com/libp2p/go-libp2p-gorpc"
)

// RaftProto is the RPC protocol of the raft peer fixtures.
const RaftProto = "/verif/raft/rpc"

// raftConsSvc forwards the Consensus RPC service to the real component (the
// leader redirect needs it).
type raftConsSvc struct{ p *RaftPeer }

func (s *raftConsSvc) LogPin(ctx context.Context, in *api.Pin, out *struct{}) error {
	if s.p.refuse() {
		return errors.New("injected: the leader could not take the redirected operation")
	}
	return s.p.Cons.LogPin(ctx, in)
}
func (s *raftConsSvc) LogUnpin(ctx context.Context, in *api.Pin, out *struct{}) error {
	if s.p.refuse() {
		return errors.New("injected: the leader could not take the redirected operation")
	}
	return s.p.Cons.LogUnpin(ctx, in)
}
func (s *raftConsSvc) AddPeer(ctx context.Context, in peer.ID, out *struct{}) error {
	return s.p.Cons.AddPeer(ctx, in)
}
func (s *raftConsSvc) RmPeer(ctx context.Context, in peer.ID, out *struct{}) error {
	return s.p.Cons.RmPeer(ctx, in)
}
func (s *raftConsSvc) Peers(ctx context.Context, in struct{}, out *[]peer.ID) error {
	p, err := s.p.Cons.Peers(ctx)
	*out = p
	return err
}

// RaftTuning holds the raft settings drawn per case.
type RaftTuning struct {
	SnapshotThreshold uint64
	SnapshotInterval  time.Duration
	TrailingLogs      uint64
}

// RaftPeer is a real raft.Consensus on a loopback host with a recording
// PinTracker RPC service.
type RaftPeer struct {
	H      host.Host
	Cons   *raft.Consensus
	Rec    *Recorder
	Cfg    *raft.Config
	Folder string
	Tuning RaftTuning
	// Retries overrides commit_retries (default 2) when set; 0 is legal
	Retries  *int
	Init     []peer.ID
	restores int64
	client   *rpc.Client
	up       bool
	// RefuseRedirects makes the Consensus RPC service fail the next n
	// redirected LogPin/LogUnpin calls before they reach the component
	refuseMu        sync.Mutex
	RefuseRedirects int
	Refused         int
}

func (p *RaftPeer) refuse() bool {
	p.refuseMu.Lock()
	defer p.refuseMu.Unlock()
	if p.RefuseRedirects > 0 {
		p.RefuseRedirects--
		p.Refused++
		return true
	}
	return false
}

// SetRefuse arms the refusal of the next n redirected operations.
func (p *RaftPeer) SetRefuse(n int) {
	p.refuseMu.Lock()
	p.RefuseRedirects, p.Refused = n, 0
	p.refuseMu.Unlock()
}

// RefusedCount says how many redirected operations were refused since SetRefuse.
func (p *RaftPeer) RefusedCount() int {
	p.refuseMu.Lock()
	defer p.refuseMu.Unlock()
	return p.Refused
}

// NewRaftHost creates the long-lived part of a peer: host and RPC server.
func NewRaftHost(key ic.PrivKey, folder string) *RaftPeer {
	h := NewHost(key, true)
	p := &RaftPeer{H: h, Rec: NewRecorder(), Folder: folder}
	s := rpc.NewServer(h, RaftProto)
	if err := s.RegisterName("Consensus", &raftConsSvc{p}); err != nil {
		panic(err)
	}
	if err := s.RegisterName("PinTracker", &TrackerSvc{p.Rec}); err != nil {
		panic(err)
	}
	p.client = rpc.NewClientWithServer(h, RaftProto, s)
	return p
}

// KnowEachOther fills the peerstores and connects the hosts.
func KnowEachOther(peers []*RaftPeer) {
	for _, a := range peers {
		for _, b := range peers {
			if a != b {
				a.H.Peerstore().AddAddrs(b.H.ID(), b.H.Addrs(), peerstore.PermanentAddrTTL)
			}
		}
	}
}

func (p *RaftPeer) mkConfig() *raft.Config {
	cfg := &raft.Config{}
	cfg.Default()
	cfg.DataFolder = filepath.Join(p.Folder, "raft")
	cfg.InitPeerset = p.Init
	cfg.WaitForLeaderTimeout = 20 * time.Second
	cfg.NetworkTimeout = 5 * time.Second
	cfg.CommitRetries = 2
	if p.Retries != nil {
		cfg.CommitRetries = *p.Retries
	}
	cfg.CommitRetryDelay = 50 * time.Millisecond
	cfg.BackupsRotate = 2
	cfg.RaftConfig.HeartbeatTimeout = 200 * time.Millisecond
	cfg.RaftConfig.ElectionTimeout = 200 * time.Millisecond
	cfg.RaftConfig.LeaderLeaseTimeout = 150 * time.Millisecond
	cfg.RaftConfig.CommitTimeout = 10 * time.Millisecond
	if p.Tuning.SnapshotThreshold > 0 {
		cfg.RaftConfig.SnapshotThreshold = p.Tuning.SnapshotThreshold
		cfg.RaftConfig.SnapshotInterval = p.Tuning.SnapshotInterval
		cfg.RaftConfig.TrailingLogs = p.Tuning.TrailingLogs
	}
	return cfg
}

// restoreSpy is the datastore handed to the consensus component. It counts
// the snapshot restores the component performs on it: Raft restores a
// snapshot by calling Unmarshal on the state (replaceOnRestoreState), which
// starts by listing what is there - the only Query that comes from below
// that function. A change that reaches a peer inside a snapshot is not
// handed to the tracker one operation at a time (the peer's periodic state
// sync does that), so the hand-off oracle needs to know about it.
type restoreSpy struct {
	ds.Datastore
	n *int64
}

func (s *restoreSpy) Query(q query.Query) (query.Results, error) {
	pcs := make([]uintptr, 32)
	frames := runtime.CallersFrames(pcs[:runtime.Callers(2, pcs)])
	for {
		f, more := frames.Next()
		if strings.Contains(f.Function, "replaceOnRestoreState") {
			atomic.AddInt64(s.n, 1)
			break
		}
		if !more {
			break
		}
	}
	return s.Datastore.Query(q)
}

// Restores is the number of snapshot restores since the peer was created.
func (p *RaftPeer) Restores() int64 { return atomic.LoadInt64(&p.restores) }

// Start creates the consensus component on the peer's data folder with a
// fresh in-memory datastore and waits until it is ready.
func (p *RaftPeer) Start(staging bool) error {
	p.Cfg = p.mkConfig()
	cons, err := raft.NewConsensus(p.H, p.Cfg, &restoreSpy{Datastore: dssync.MutexWrap(ds.NewMapDatastore()), n: &p.restores}, staging)
	if err != nil {
		return err
	}
	p.Cons = cons
	cons.SetClient(p.client)
	p.up = true
	return nil
}

// WaitReady waits for the consensus Ready signal.
func (p *RaftPeer) WaitReady(d time.Duration) error {
	select {
	case <-p.Cons.Ready(context.Background()):
		return nil
	case <-time.After(d):
		return fmt.Errorf("raft peer not ready after %v", d)
	}
}

// Stop shuts the consensus component down (the host stays).
func (p *RaftPeer) Stop() error {
	if !p.up {
		return nil
	}
	p.up = false
	return p.Cons.Shutdown(context.Background())
}

// Up says whether the component is running.
func (p *RaftPeer) Up() bool { return p.up }

// Pins lists the peer's pinset sorted by CID.
func (p *RaftPeer) Pins() ([]*api.Pin, error) {
	st, err := p.Cons.State(context.Background())
	if err != nil {
		return nil, err
	}
	pins, err := st.List(context.Background())
	if err != nil {
		return nil, err
	}
	sort.Slice(pins, func(i, j int) bool { return pins[i].Cid.String() < pins[j].Cid.String() })
	return pins, nil
}

// Close stops everything.
func (p *RaftPeer) Close() {
	p.Stop()
	p.H.Close()
}
