package fakes

import (
	"context"
	"errors"
	"fmt"
	"sort"
	"sync"
	"sync/atomic"

	cid "github.com/ipfs/go-cid"
	ds "github.com/ipfs/go-datastore"
	dssync "github.com/ipfs/go-datastore/sync"
	"github.com/ipfs/ipfs-cluster/api"
	"github.com/ipfs/ipfs-cluster/pintracker/stateless"
	"github.com/ipfs/ipfs-cluster/state"
	"github.com/ipfs/ipfs-cluster/state/dsstate"
	peer "github.com/libp2p/go-libp2p-core/peer"
	rpc "github.com/libp2p/go-libp2p-gorpc"
)

// Parked is an IPFS call waiting for the script to release it.
type Parked struct {
	ID      int
	Kind    string // "pin" | "unpin"
	Cid     cid.Cid
	Pin     *api.Pin
	ctx     context.Context
	release chan string // outcome: "ok" | "fail"
}

// Daemon is the model IPFS daemon behind the IPFSConnector RPC service: a
// pin table cid -> mode. Pin and Unpin park on a gate when Gate is set.
// Commit and the cancellation check are atomic under the daemon lock: a call
// whose context was cancelled before its release never commits (well-behaved
// daemon; this is the assumption under which cancel-and-replace is correct).
type Daemon struct {
	mu     sync.Mutex
	Table  map[string]api.IPFSPinStatus // Recursive or Direct; extra entries may be Indirect
	Gate   bool
	parked []*Parked
	nextID int
	Events int64 // bumped on every call arrival / completion
	// Calls log: every Pin/Unpin that reached the daemon with its outcome
	Calls []string
	// FailLs makes PinLs / PinLsCid fail
	FailLs bool
	// FailFor, when set, makes ungated Pin/Unpin calls fail for chosen CIDs
	FailFor func(kind string, c cid.Cid) bool
}

// NewDaemon returns an empty ungated daemon.
func NewDaemon() *Daemon { return &Daemon{Table: map[string]api.IPFSPinStatus{}} }

func (d *Daemon) bump() { atomic.AddInt64(&d.Events, 1) }

// EventCount returns the event counter.
func (d *Daemon) EventCount() int64 { return atomic.LoadInt64(&d.Events) }

func (d *Daemon) park(ctx context.Context, kind string, p *api.Pin) string {
	d.mu.Lock()
	if !d.Gate {
		ff := d.FailFor
		d.mu.Unlock()
		if ff != nil && ff(kind, p.Cid) {
			return "fail"
		}
		return "ok"
	}
	d.nextID++
	pk := &Parked{ID: d.nextID, Kind: kind, Cid: p.Cid, Pin: CopyPin(p), ctx: ctx, release: make(chan string, 1)}
	d.parked = append(d.parked, pk)
	d.mu.Unlock()
	d.bump()
	return <-pk.release
}

// ParkedCalls returns the parked calls in arrival order.
func (d *Daemon) ParkedCalls() []*Parked {
	d.mu.Lock()
	defer d.mu.Unlock()
	return append([]*Parked(nil), d.parked...)
}

// Release lets the k-th parked call (arrival order) finish with the outcome.
func (d *Daemon) Release(k int, outcome string) *Parked {
	d.mu.Lock()
	if k < 0 || k >= len(d.parked) {
		d.mu.Unlock()
		return nil
	}
	pk := d.parked[k]
	d.parked = append(d.parked[:k:k], d.parked[k+1:]...)
	d.mu.Unlock()
	pk.release <- outcome
	return pk
}

// ReleaseAll releases every parked call with the outcome and opens the gate
// when open is set.
func (d *Daemon) ReleaseAll(outcome string, open bool) int {
	d.mu.Lock()
	ps := d.parked
	d.parked = nil
	if open {
		d.Gate = false
	}
	d.mu.Unlock()
	for _, pk := range ps {
		pk.release <- outcome
	}
	return len(ps)
}

// Get returns the table entry of c.
func (d *Daemon) Get(c cid.Cid) api.IPFSPinStatus {
	d.mu.Lock()
	defer d.mu.Unlock()
	if s, ok := d.Table[c.String()]; ok {
		return s
	}
	return api.IPFSPinStatusUnpinned
}

// Set writes a table entry directly (test setup).
func (d *Daemon) Set(c cid.Cid, s api.IPFSPinStatus) {
	d.mu.Lock()
	if s == api.IPFSPinStatusUnpinned {
		delete(d.Table, c.String())
	} else {
		d.Table[c.String()] = s
	}
	d.mu.Unlock()
}

// Render lists the table sorted.
func (d *Daemon) Render() string {
	d.mu.Lock()
	defer d.mu.Unlock()
	var s []string
	for k, v := range d.Table {
		s = append(s, fmt.Sprintf("%s=%d", k, v))
	}
	sort.Strings(s)
	return fmt.Sprint(s)
}

// DaemonRPC is the IPFSConnector RPC service over a Daemon.
type DaemonRPC struct{ D *Daemon }

var errInjected = errors.New("injected IPFS error")

func (r *DaemonRPC) Pin(ctx context.Context, in *api.Pin, out *struct{}) error {
	d := r.D
	outcome := d.park(ctx, "pin", in)
	d.mu.Lock()
	defer d.mu.Unlock()
	defer d.bump()
	if err := ctx.Err(); err != nil {
		d.Calls = append(d.Calls, "pin "+in.Cid.String()+" cancelled")
		return err
	}
	if outcome != "ok" {
		d.Calls = append(d.Calls, "pin "+in.Cid.String()+" failed")
		return errInjected
	}
	cur, has := d.Table[in.Cid.String()]
	wantDirect := in.MaxDepth == 0
	switch {
	case has && cur == api.IPFSPinStatusRecursive && wantDirect:
		d.Calls = append(d.Calls, "pin "+in.Cid.String()+" refused")
		return errors.New("pin: already pinned recursively")
	case wantDirect:
		d.Table[in.Cid.String()] = api.IPFSPinStatusDirect
	default:
		d.Table[in.Cid.String()] = api.IPFSPinStatusRecursive
	}
	d.Calls = append(d.Calls, "pin "+in.Cid.String()+" ok")
	return nil
}

func (r *DaemonRPC) Unpin(ctx context.Context, in *api.Pin, out *struct{}) error {
	d := r.D
	outcome := d.park(ctx, "unpin", in)
	d.mu.Lock()
	defer d.mu.Unlock()
	defer d.bump()
	if err := ctx.Err(); err != nil {
		d.Calls = append(d.Calls, "unpin "+in.Cid.String()+" cancelled")
		return err
	}
	if outcome != "ok" {
		d.Calls = append(d.Calls, "unpin "+in.Cid.String()+" failed")
		return errInjected
	}
	if s, ok := d.Table[in.Cid.String()]; ok && s != api.IPFSPinStatusIndirect {
		delete(d.Table, in.Cid.String())
	}
	d.Calls = append(d.Calls, "unpin "+in.Cid.String()+" ok")
	return nil
}

func (r *DaemonRPC) PinLsCid(ctx context.Context, in *api.Pin, out *api.IPFSPinStatus) error {
	d := r.D
	d.mu.Lock()
	defer d.mu.Unlock()
	if d.FailLs {
		return errInjected
	}
	// the connector asks "pin ls --type=<mode of the pin>": a CID held in
	// another mode (or only indirectly) is reported as not pinned
	want := api.IPFSPinStatusRecursive
	if in.MaxDepth == 0 {
		want = api.IPFSPinStatusDirect
	}
	if s, ok := d.Table[in.Cid.String()]; ok && s == want {
		*out = s
	} else {
		*out = api.IPFSPinStatusUnpinned
	}
	return nil
}

func (r *DaemonRPC) PinLs(ctx context.Context, in string, out *map[string]api.IPFSPinStatus) error {
	d := r.D
	d.mu.Lock()
	defer d.mu.Unlock()
	if d.FailLs {
		return errInjected
	}
	m := map[string]api.IPFSPinStatus{}
	for k, v := range d.Table {
		switch in {
		case "recursive":
			if v == api.IPFSPinStatusRecursive {
				m[k] = v
			}
		case "direct":
			if v == api.IPFSPinStatusDirect {
				m[k] = v
			}
		case "indirect":
			if v == api.IPFSPinStatusIndirect {
				m[k] = v
			}
		default:
			m[k] = v
		}
	}
	*out = m
	return nil
}

// TrackerFixture is a real stateless tracker over a model pinset and a model
// daemon.
type TrackerFixture struct {
	T      *stateless.Tracker
	D      *Daemon
	St     *dsstate.State
	ID     peer.ID
	Client *rpc.Client
}

// NewTracker builds the fixture.
func NewTracker(id peer.ID, queue, concurrent int) *TrackerFixture {
	st, err := dsstate.New(dssync.MutexWrap(ds.NewMapDatastore()), "/pins", nil)
	if err != nil {
		panic(err)
	}
	cfg := &stateless.Config{}
	cfg.Default()
	cfg.MaxPinQueueSize = queue
	cfg.ConcurrentPins = concurrent
	d := NewDaemon()
	s := rpc.NewServer(nil, "verif")
	c := rpc.NewClientWithServer(nil, "verif", s)
	if err := s.RegisterName("IPFSConnector", &DaemonRPC{D: d}); err != nil {
		panic(err)
	}
	t := stateless.New(cfg, id, "verif", func(context.Context) (state.ReadOnly, error) { return st, nil })
	t.SetClient(c)
	return &TrackerFixture{T: t, D: d, St: st, ID: id, Client: c}
}

// Close shuts the tracker down (releasing anything parked first).
func (f *TrackerFixture) Close() {
	f.D.ReleaseAll("fail", true)
	f.T.Shutdown(context.Background())
}
