// Package cmpx is the harness's own comparator: a reflective canonical
// renderer (so two values are equal iff their renderings are equal) plus
// the documented normalisations of api.Pin. It never calls Pin.Equals or
// PinOptions.Equals.
package cmpx

import (
	"fmt"
	"reflect"
	"sort"
	"strings"
	"time"

	cid "github.com/ipfs/go-cid"
	"github.com/ipfs/ipfs-cluster/api"
	peer "github.com/libp2p/go-libp2p-core/peer"
	multiaddr "github.com/multiformats/go-multiaddr"
)

var (
	tCid   = reflect.TypeOf(cid.Cid{})
	tPeer  = reflect.TypeOf(peer.ID(""))
	tTime  = reflect.TypeOf(time.Time{})
	tMaI   = reflect.TypeOf((*multiaddr.Multiaddr)(nil)).Elem()
	tApiMa = reflect.TypeOf(api.Multiaddr{})
)

// Canon renders v canonically: nil and empty slices/maps are equal, maps are
// sorted, times are compared as instants, CIDs/peers/multiaddresses by their
// string form, nil pointers as "nil".
func Canon(v interface{}) string {
	var b strings.Builder
	canon(&b, reflect.ValueOf(v))
	return b.String()
}

func canon(b *strings.Builder, v reflect.Value) {
	if !v.IsValid() {
		b.WriteString("nil")
		return
	}
	t := v.Type()
	switch {
	case t == tCid:
		c := v.Interface().(cid.Cid)
		if !c.Defined() {
			b.WriteString("cid:undef")
		} else {
			b.WriteString("cid:" + c.String())
		}
		return
	case t == tPeer:
		p := v.Interface().(peer.ID)
		if p == "" {
			b.WriteString("peer:empty")
		} else {
			b.WriteString("peer:" + peer.Encode(p))
		}
		return
	case t == tTime:
		tm := v.Interface().(time.Time)
		if tm.IsZero() {
			b.WriteString("time:zero")
		} else {
			fmt.Fprintf(b, "time:%d", tm.UnixNano())
		}
		return
	case t == tApiMa:
		m := v.Interface().(api.Multiaddr)
		if m.Multiaddr == nil {
			b.WriteString("ma:nil")
		} else {
			b.WriteString("ma:" + m.String())
		}
		return
	}
	switch v.Kind() {
	case reflect.Ptr:
		if v.IsNil() {
			b.WriteString("nil")
			return
		}
		b.WriteString("&")
		canon(b, v.Elem())
	case reflect.Interface:
		if v.IsNil() {
			if t == tMaI {
				b.WriteString("ma:nil")
			} else {
				b.WriteString("nil")
			}
			return
		}
		if t == tMaI {
			b.WriteString("ma:" + v.Interface().(multiaddr.Multiaddr).String())
			return
		}
		canon(b, v.Elem())
	case reflect.Struct:
		b.WriteString("{")
		for i := 0; i < v.NumField(); i++ {
			f := t.Field(i)
			if f.PkgPath != "" { // unexported
				continue
			}
			if i > 0 {
				b.WriteString(" ")
			}
			b.WriteString(f.Name + ":")
			canon(b, v.Field(i))
		}
		b.WriteString("}")
	case reflect.Slice, reflect.Array:
		if v.Kind() == reflect.Slice && t.Elem().Kind() == reflect.Uint8 {
			fmt.Fprintf(b, "bytes:%x", v.Bytes())
			return
		}
		b.WriteString("[")
		for i := 0; i < v.Len(); i++ {
			if i > 0 {
				b.WriteString(",")
			}
			canon(b, v.Index(i))
		}
		b.WriteString("]")
	case reflect.Map:
		keys := v.MapKeys()
		type kv struct{ k, v string }
		var kvs []kv
		for _, k := range keys {
			var kb, vb strings.Builder
			canon(&kb, k)
			canon(&vb, v.MapIndex(k))
			kvs = append(kvs, kv{kb.String(), vb.String()})
		}
		sort.Slice(kvs, func(i, j int) bool { return kvs[i].k < kvs[j].k })
		b.WriteString("map[")
		for i, e := range kvs {
			if i > 0 {
				b.WriteString(",")
			}
			b.WriteString(e.k + "=>" + e.v)
		}
		b.WriteString("]")
	case reflect.String:
		fmt.Fprintf(b, "%q", v.String())
	case reflect.Bool:
		fmt.Fprintf(b, "%t", v.Bool())
	case reflect.Int, reflect.Int8, reflect.Int16, reflect.Int32, reflect.Int64:
		fmt.Fprintf(b, "%d", v.Int())
	case reflect.Uint, reflect.Uint8, reflect.Uint16, reflect.Uint32, reflect.Uint64:
		fmt.Fprintf(b, "%d", v.Uint())
	case reflect.Float32, reflect.Float64:
		fmt.Fprintf(b, "%g", v.Float())
	default:
		fmt.Fprintf(b, "%v", v.Interface())
	}
}

// Norm selects the documented lossy fields to forgive (DESIGN section 3).
type Norm struct {
	DropUserAllocs   bool // stored form does not keep transient user allocations
	ExpirySeconds    bool // stored form keeps whole seconds; unix 0 means "unset"
	ModeFromDepth    bool // stored form derives the mode from max-depth
	DropEmptyMetaKey bool // query form drops metadata entries with empty key
	SortAllocs       bool // allocation order is not significant
	DropAllocs       bool // compare options only
}

// Stored is the normaliser for the protobuf (stored) form.
var Stored = Norm{DropUserAllocs: true, ExpirySeconds: true, ModeFromDepth: true}

// Wire is the normaliser for msgpack and JSON: nothing is forgiven.
var Wire = Norm{}

// NormPin returns a normalised deep copy of p.
func NormPin(p *api.Pin, n Norm) *api.Pin {
	if p == nil {
		return nil
	}
	q := *p
	q.PinOptions = NormOpts(p.PinOptions, n)
	q.Allocations = append([]peer.ID(nil), p.Allocations...)
	if n.SortAllocs {
		sort.Slice(q.Allocations, func(i, j int) bool { return q.Allocations[i] < q.Allocations[j] })
	}
	if n.DropAllocs {
		q.Allocations = nil
	}
	if p.Reference != nil {
		r := *p.Reference
		q.Reference = &r
	}
	if n.ModeFromDepth {
		if q.MaxDepth == 0 {
			q.Mode = api.PinModeDirect
		} else {
			q.Mode = api.PinModeRecursive
		}
	}
	return &q
}

// NormOpts returns a normalised deep copy of o.
func NormOpts(o api.PinOptions, n Norm) api.PinOptions {
	q := o
	q.UserAllocations = append([]peer.ID(nil), o.UserAllocations...)
	if n.DropUserAllocs {
		q.UserAllocations = nil
	}
	if n.ExpirySeconds {
		if o.ExpireAt.IsZero() || o.ExpireAt.Equal(time.Unix(0, 0)) {
			q.ExpireAt = time.Time{}
		} else {
			q.ExpireAt = time.Unix(o.ExpireAt.Unix(), 0)
		}
	}
	if o.Metadata != nil {
		q.Metadata = map[string]string{}
		for k, v := range o.Metadata {
			if n.DropEmptyMetaKey && k == "" {
				continue
			}
			q.Metadata[k] = v
		}
	}
	q.Origins = append([]multiaddr.Multiaddr(nil), o.Origins...)
	return q
}

// PinStr is Canon(NormPin(p, n)).
func PinStr(p *api.Pin, n Norm) string {
	if p == nil {
		return "nil"
	}
	return Canon(NormPin(p, n))
}

// OptsStr is Canon(NormOpts(o, n)).
func OptsStr(o api.PinOptions, n Norm) string { return Canon(NormOpts(o, n)) }

// Diff returns a short description of where two canonical strings differ.
func Diff(a, b string) string {
	i := 0
	for i < len(a) && i < len(b) && a[i] == b[i] {
		i++
	}
	s := i - 60
	if s < 0 {
		s = 0
	}
	ea, eb := i+80, i+80
	if ea > len(a) {
		ea = len(a)
	}
	if eb > len(b) {
		eb = len(b)
	}
	return fmt.Sprintf("differ at byte %d:\n  A: ...%s\n  B: ...%s", i, a[s:ea], b[s:eb])
}
