// Package gen holds the shared rapid generators: a small CID universe, a
// small peer universe and well-formed pins with every option.
package gen

import (
	"crypto/ed25519"
	"crypto/sha256"
	"fmt"
	"time"

	cid "github.com/ipfs/go-cid"
	"github.com/ipfs/ipfs-cluster/api"
	ic "github.com/libp2p/go-libp2p-core/crypto"
	peer "github.com/libp2p/go-libp2p-core/peer"
	multiaddr "github.com/multiformats/go-multiaddr"
	mh "github.com/multiformats/go-multihash"
	"pgregory.net/rapid"
)

// Cids is the CID universe: both versions, several codecs and hash functions.
var Cids []cid.Cid

// Peers is the peer universe: Ed25519 (identity multihash) and sha2-256 IDs.
var Peers []peer.ID

// PeerKeys holds the private key of Peers[i] for i < NKeyed.
var PeerKeys []ic.PrivKey

// NKeyed is the number of peers with a private key.
const NKeyed = 10

func mkcid(version uint64, codec uint64, mhType uint64, data string) cid.Cid {
	mhLen := -1
	pref := cid.Prefix{Version: version, Codec: codec, MhType: mhType, MhLength: mhLen}
	c, err := pref.Sum([]byte(data))
	if err != nil {
		panic(err)
	}
	return c
}

func init() {
	Cids = []cid.Cid{
		mkcid(0, cid.DagProtobuf, mh.SHA2_256, "a"),
		mkcid(1, cid.DagProtobuf, mh.SHA2_256, "b"),
		mkcid(1, cid.Raw, mh.SHA2_256, "c"),
		mkcid(0, cid.DagProtobuf, mh.SHA2_256, "d"),
		mkcid(1, cid.DagCBOR, mh.SHA2_256, "e"),
		mkcid(1, cid.Raw, mh.BLAKE2B_MIN+31, "f"),
		mkcid(1, cid.Raw, mh.IDENTITY, "g"),
		mkcid(0, cid.DagProtobuf, mh.SHA2_256, "h"),
		mkcid(1, cid.DagProtobuf, mh.SHA2_512, "i"),
		mkcid(1, cid.DagProtobuf, mh.SHA2_256, "a"), // same multihash as Cids[0], other version
		mkcid(0, cid.DagProtobuf, mh.SHA2_256, "k"),
		mkcid(1, cid.DagCBOR, mh.SHA2_256, "l"),
	}
	for i := 0; i < NKeyed; i++ {
		seed := sha256.Sum256([]byte(fmt.Sprintf("verif-peer-%d", i)))
		std := ed25519.NewKeyFromSeed(seed[:])
		priv, err := ic.UnmarshalEd25519PrivateKey(std)
		if err != nil {
			panic(err)
		}
		pid, err := peer.IDFromPrivateKey(priv)
		if err != nil {
			panic(err)
		}
		Peers = append(Peers, pid)
		PeerKeys = append(PeerKeys, priv)
	}
	for i := 0; i < 2; i++ {
		h, _ := mh.Sum([]byte(fmt.Sprintf("verif-rsa-like-%d", i)), mh.SHA2_256, -1)
		Peers = append(Peers, peer.ID(h))
	}
}

// CidN draws one of the first n CIDs of the universe.
func CidN(n int) *rapid.Generator[cid.Cid] {
	if n > len(Cids) {
		n = len(Cids)
	}
	return rapid.Custom(func(t *rapid.T) cid.Cid { return Cids[rapid.IntRange(0, n-1).Draw(t, "cid")] })
}

// Cid draws any CID of the universe.
func Cid() *rapid.Generator[cid.Cid] { return CidN(len(Cids)) }

// PeerN draws one of the first n peers.
func PeerN(n int) *rapid.Generator[peer.ID] {
	if n > len(Peers) {
		n = len(Peers)
	}
	return rapid.Custom(func(t *rapid.T) peer.ID { return Peers[rapid.IntRange(0, n-1).Draw(t, "peer")] })
}

// Peer draws any peer.
func Peer() *rapid.Generator[peer.ID] { return PeerN(len(Peers)) }

// PeerSubset draws 0..max distinct peers out of the first n, in drawn order.
func PeerSubset(n, max int) *rapid.Generator[[]peer.ID] {
	return rapid.Custom(func(t *rapid.T) []peer.ID {
		k := rapid.IntRange(0, max).Draw(t, "npeers")
		perm := rapid.Permutation(Peers[:n]).Draw(t, "perm")
		if k > len(perm) {
			k = len(perm)
		}
		out := make([]peer.ID, k)
		copy(out, perm[:k])
		return out
	})
}

var names = []string{"", "a", "name with space", "ünï©ode-名", "a&b=c", "100%", "x?y#z", "q+r", "/slash/", "\"quoted\""}

// Name draws a pin name.
func Name() *rapid.Generator[string] { return rapid.SampledFrom(names) }

// keys that start with letters of the "meta-" query prefix, repeat the
// prefix or need escaping are included on purpose; the empty key is last
var metaKeys = []string{"k1", "k 2", "ключ", "meta", "author", "meta-x", "-t", "a=b&c", ""}
var metaVals = []string{"", "v", "v w", "&=%", "值"}

// Metadata draws nil or a map of 0..3 entries; the empty key is included only
// when emptyKey is set.
func Metadata(emptyKey bool) *rapid.Generator[map[string]string] {
	return rapid.Custom(func(t *rapid.T) map[string]string {
		n := rapid.IntRange(-1, 3).Draw(t, "nmeta")
		if n < 0 {
			return nil
		}
		m := map[string]string{}
		keys := metaKeys
		if !emptyKey {
			keys = metaKeys[:len(metaKeys)-1]
		}
		for i := 0; i < n; i++ {
			m[rapid.SampledFrom(keys).Draw(t, "mk")] = rapid.SampledFrom(metaVals).Draw(t, "mv")
		}
		return m
	})
}

// Base is a fixed instant far in the future used for expiry values (never
// "near now": see DESIGN 2.5).
var Base = time.Date(2093, 3, 4, 5, 6, 7, 0, time.UTC)

// Expiry kinds.
const (
	ExpZero = iota
	ExpUnixZero
	ExpFutureSec
	ExpFutureNanos
)

// ExpireAt draws an expiry: zero, unix 0, far future whole second, far future
// with nanoseconds (nanos only when allowed).
func ExpireAt(nanos, unixZero bool) *rapid.Generator[time.Time] {
	return rapid.Custom(func(t *rapid.T) time.Time {
		kinds := []int{ExpZero, ExpFutureSec, ExpFutureSec}
		if nanos {
			kinds = append(kinds, ExpFutureNanos)
		}
		if unixZero {
			kinds = append(kinds, ExpUnixZero)
		}
		switch rapid.SampledFrom(kinds).Draw(t, "expkind") {
		case ExpZero:
			return time.Time{}
		case ExpUnixZero:
			return time.Unix(0, 0)
		case ExpFutureSec:
			return Base.Add(time.Duration(rapid.IntRange(0, 5).Draw(t, "expsec")) * time.Hour)
		default:
			return Base.Add(time.Duration(rapid.IntRange(1, 999999999).Draw(t, "expns")))
		}
	})
}

// Origin draws a multiaddress with a /p2p/ component.
func Origin() *rapid.Generator[multiaddr.Multiaddr] {
	return rapid.Custom(func(t *rapid.T) multiaddr.Multiaddr {
		p := Peer().Draw(t, "opeer")
		var s string
		switch rapid.IntRange(0, 3).Draw(t, "okind") {
		case 0:
			s = fmt.Sprintf("/ip4/10.0.%d.%d/tcp/%d/p2p/%s", rapid.IntRange(0, 3).Draw(t, "a"), rapid.IntRange(1, 3).Draw(t, "b"), rapid.IntRange(4000, 4003).Draw(t, "port"), peer.Encode(p))
		case 1:
			s = fmt.Sprintf("/dns4/host%d.example.org/tcp/4001/p2p/%s", rapid.IntRange(0, 2).Draw(t, "h"), peer.Encode(p))
		case 2:
			s = fmt.Sprintf("/ip6/::1/udp/%d/quic/p2p/%s", rapid.IntRange(4000, 4002).Draw(t, "port"), peer.Encode(p))
		default:
			s = fmt.Sprintf("/p2p/%s", peer.Encode(p))
		}
		m, err := multiaddr.NewMultiaddr(s)
		if err != nil {
			panic(err)
		}
		return m
	})
}

// Origins draws nil or 0..3 distinct origins. With allow=false it always
// returns nil.
func Origins(allow bool) *rapid.Generator[[]multiaddr.Multiaddr] {
	return rapid.Custom(func(t *rapid.T) []multiaddr.Multiaddr {
		if !allow {
			return nil
		}
		n := rapid.IntRange(-2, 3).Draw(t, "norigins")
		if n < 0 {
			return nil
		}
		out := []multiaddr.Multiaddr{}
		seen := map[string]bool{}
		for i := 0; i < n; i++ {
			o := Origin().Draw(t, "origin")
			if seen[o.String()] {
				continue
			}
			seen[o.String()] = true
			out = append(out, o)
		}
		return out
	})
}

// OptCfg tunes the option generator.
type OptCfg struct {
	Origins      bool // allow non-empty origins
	EmptyMetaKey bool // allow the empty metadata key
	Nanos        bool // allow sub-second expiry
	UnixZero     bool // allow expiry == unix 0
	UserAllocs   bool // allow user allocations
	ZeroFactors  bool // allow 0/0 ("use the default")
	PinUpdate    bool // allow an update source
	NPeers       int  // peers drawn from the first NPeers (default all)
	NCids        int  // CIDs from the first NCids (default all)
}

// Full allows everything.
var Full = OptCfg{Origins: true, EmptyMetaKey: true, Nanos: true, UnixZero: true, UserAllocs: true, ZeroFactors: true, PinUpdate: true}

func (c OptCfg) npeers() int {
	if c.NPeers <= 0 || c.NPeers > len(Peers) {
		return len(Peers)
	}
	return c.NPeers
}
func (c OptCfg) ncids() int {
	if c.NCids <= 0 || c.NCids > len(Cids) {
		return len(Cids)
	}
	return c.NCids
}

// Factors draws a valid replication factor pair.
func Factors(zero bool) *rapid.Generator[[2]int] {
	return rapid.Custom(func(t *rapid.T) [2]int {
		k := rapid.IntRange(0, 5).Draw(t, "fkind")
		switch {
		case k == 0:
			return [2]int{-1, -1}
		case k == 1 && zero:
			return [2]int{0, 0}
		default:
			min := rapid.IntRange(1, 4).Draw(t, "rmin")
			max := rapid.IntRange(min, 4).Draw(t, "rmax")
			return [2]int{min, max}
		}
	})
}

// Options draws pin options.
func Options(c OptCfg) *rapid.Generator[api.PinOptions] {
	return rapid.Custom(func(t *rapid.T) api.PinOptions {
		f := Factors(c.ZeroFactors).Draw(t, "factors")
		o := api.PinOptions{
			ReplicationFactorMin: f[0],
			ReplicationFactorMax: f[1],
			Name:                 Name().Draw(t, "name"),
			Mode:                 rapid.SampledFrom([]api.PinMode{api.PinModeRecursive, api.PinModeRecursive, api.PinModeDirect}).Draw(t, "mode"),
			ShardSize:            rapid.SampledFrom([]uint64{0, 0, 1024, api.DefaultShardSize, 1 << 40}).Draw(t, "shardsize"),
			ExpireAt:             ExpireAt(c.Nanos, c.UnixZero).Draw(t, "expire"),
			Metadata:             Metadata(c.EmptyMetaKey).Draw(t, "meta"),
			Origins:              Origins(c.Origins).Draw(t, "origins"),
		}
		if c.UserAllocs && rapid.IntRange(0, 2).Draw(t, "hasua") == 0 {
			o.UserAllocations = PeerSubset(c.npeers(), 3).Draw(t, "ua")
		}
		if c.PinUpdate && rapid.IntRange(0, 3).Draw(t, "haspu") == 0 {
			o.PinUpdate = CidN(c.ncids()).Draw(t, "pu")
		}
		return o
	})
}

// Pin draws a well-formed pin of any type (see checkPinType in cluster.go
// and the way the adder builds meta, cluster-DAG and shard pins).
func Pin(c OptCfg) *rapid.Generator[*api.Pin] {
	return PinOf(c, nil)
}

// PinOf draws a well-formed pin for a fixed CID (nil: drawn).
func PinOf(c OptCfg, fixed *cid.Cid) *rapid.Generator[*api.Pin] {
	return rapid.Custom(func(t *rapid.T) *api.Pin {
		var ci cid.Cid
		if fixed != nil {
			ci = *fixed
		} else {
			ci = CidN(c.ncids()).Draw(t, "pincid")
		}
		opts := Options(c).Draw(t, "opts")
		p := api.PinWithOpts(ci, opts)
		typ := rapid.SampledFrom([]api.PinType{api.DataType, api.DataType, api.DataType, api.MetaType, api.ClusterDAGType, api.ShardType}).Draw(t, "type")
		p.Type = typ
		allocs := PeerSubset(c.npeers(), 4).Draw(t, "allocs")
		if rapid.Bool().Draw(t, "nilallocs") && len(allocs) == 0 {
			allocs = nil
		}
		p.Allocations = allocs
		switch typ {
		case api.DataType:
			// reference must be nil, depth follows mode
		case api.MetaType:
			p.Allocations = nil
			r := CidN(c.ncids()).Draw(t, "ref")
			p.Reference = &r
		case api.ClusterDAGType:
			p.MaxDepth = 0
			p.Mode = api.PinModeDirect
			p.ReplicationFactorMin, p.ReplicationFactorMax = -1, -1
			r := CidN(c.ncids()).Draw(t, "ref")
			p.Reference = &r
		case api.ShardType:
			p.MaxDepth = 1
			p.Mode = api.PinModeRecursive
			if rapid.Bool().Draw(t, "hasref") {
				r := CidN(c.ncids()).Draw(t, "ref")
				p.Reference = &r
			}
		}
		if p.IsPinEverywhere() && rapid.Bool().Draw(t, "everywhere-noallocs") {
			p.Allocations = nil
		}
		return p
	})
}
