package gen

import (
	"fmt"
	"time"

	"github.com/ipfs/ipfs-cluster/api"
	peer "github.com/libp2p/go-libp2p-core/peer"
	protocol "github.com/libp2p/go-libp2p-core/protocol"
	"pgregory.net/rapid"
)

var errStrings = []string{"", "context canceled", "pin error: ünï", "a\nb", "\"q\""}

// ErrStr draws an error message.
func ErrStr() *rapid.Generator[string] { return rapid.SampledFrom(errStrings) }

// Statuses lists every single tracker status.
var Statuses = []api.TrackerStatus{
	api.TrackerStatusClusterError, api.TrackerStatusPinError, api.TrackerStatusUnpinError,
	api.TrackerStatusPinned, api.TrackerStatusPinning, api.TrackerStatusUnpinning,
	api.TrackerStatusUnpinned, api.TrackerStatusRemote, api.TrackerStatusPinQueued,
	api.TrackerStatusUnpinQueued, api.TrackerStatusSharded, api.TrackerStatusUnexpectedlyUnpinned,
}

// Status draws a single (non-composite) status.
func Status() *rapid.Generator[api.TrackerStatus] { return rapid.SampledFrom(Statuses) }

// Filter draws a status filter: undefined, a single status, a composite or
// any union.
func Filter() *rapid.Generator[api.TrackerStatus] {
	return rapid.Custom(func(t *rapid.T) api.TrackerStatus {
		switch rapid.IntRange(0, 4).Draw(t, "fkind") {
		case 0:
			return api.TrackerStatusUndefined
		case 1:
			return Status().Draw(t, "st")
		case 2:
			return rapid.SampledFrom([]api.TrackerStatus{api.TrackerStatusError, api.TrackerStatusQueued}).Draw(t, "comp")
		default:
			var f api.TrackerStatus
			for _, s := range Statuses {
				if rapid.Bool().Draw(t, "bit") {
					f |= s
				}
			}
			return f
		}
	})
}

// Timestamp draws a time (zero, whole second, with nanoseconds), UTC.
func Timestamp() *rapid.Generator[time.Time] {
	return rapid.Custom(func(t *rapid.T) time.Time {
		switch rapid.IntRange(0, 2).Draw(t, "tkind") {
		case 0:
			return time.Time{}
		case 1:
			return time.Unix(int64(rapid.IntRange(1, 2000000000).Draw(t, "sec")), 0).UTC()
		default:
			return time.Unix(int64(rapid.IntRange(1, 2000000000).Draw(t, "sec")), int64(rapid.IntRange(1, 999999999).Draw(t, "ns"))).UTC()
		}
	})
}

// PinInfo draws a local status record.
func PinInfo() *rapid.Generator[*api.PinInfo] {
	return rapid.Custom(func(t *rapid.T) *api.PinInfo {
		return &api.PinInfo{
			Cid:  Cid().Draw(t, "cid"),
			Name: Name().Draw(t, "name"),
			Peer: Peer().Draw(t, "peer"),
			PinInfoShort: api.PinInfoShort{
				PeerName: Name().Draw(t, "peername"),
				Status:   Status().Draw(t, "status"),
				TS:       Timestamp().Draw(t, "ts"),
				Error:    ErrStr().Draw(t, "err"),
			},
		}
	})
}

// GlobalPinInfo draws a cluster-wide status record.
func GlobalPinInfo() *rapid.Generator[*api.GlobalPinInfo] {
	return rapid.Custom(func(t *rapid.T) *api.GlobalPinInfo {
		g := &api.GlobalPinInfo{Cid: Cid().Draw(t, "cid"), Name: Name().Draw(t, "name")}
		n := rapid.IntRange(0, 4).Draw(t, "npeers")
		if n > 0 {
			g.PeerMap = map[string]*api.PinInfoShort{}
		}
		for i := 0; i < n; i++ {
			pi := PinInfo().Draw(t, "pi")
			s := pi.PinInfoShort
			g.PeerMap[peer.Encode(pi.Peer)] = &s
		}
		return g
	})
}

// APIMultiaddr draws a wrapped multiaddress.
func APIMultiaddr() *rapid.Generator[api.Multiaddr] {
	return rapid.Custom(func(t *rapid.T) api.Multiaddr {
		return api.NewMultiaddrWithValue(Origin().Draw(t, "ma"))
	})
}

// IPFSID draws an IPFS daemon identity.
func IPFSID() *rapid.Generator[*api.IPFSID] {
	return rapid.Custom(func(t *rapid.T) *api.IPFSID {
		if rapid.IntRange(0, 3).Draw(t, "daemonDown") == 0 {
			// what Cluster.ID() reports while the IPFS daemon cannot be
			// reached: no peer ID, no addresses, the error text
			return &api.IPFSID{Error: "Post \"http://127.0.0.1:5001/api/v0/id\": dial tcp 127.0.0.1:5001: connect: connection refused"}
		}
		return &api.IPFSID{
			ID:        Peer().Draw(t, "id"),
			Addresses: rapid.SliceOfN(APIMultiaddr(), 0, 3).Draw(t, "addrs"),
			Error:     ErrStr().Draw(t, "err"),
		}
	})
}

// ID draws a cluster peer identity.
func ID() *rapid.Generator[*api.ID] {
	return rapid.Custom(func(t *rapid.T) *api.ID {
		id := &api.ID{
			ID:                    Peer().Draw(t, "id"),
			Addresses:             rapid.SliceOfN(APIMultiaddr(), 0, 3).Draw(t, "addrs"),
			ClusterPeers:          PeerSubset(len(Peers), 4).Draw(t, "cpeers"),
			ClusterPeersAddresses: rapid.SliceOfN(APIMultiaddr(), 0, 3).Draw(t, "cpaddrs"),
			Version:               rapid.SampledFrom([]string{"", "0.14.0", "1.0.0-rc1"}).Draw(t, "version"),
			Commit:                rapid.SampledFrom([]string{"", "abcdef"}).Draw(t, "commit"),
			RPCProtocolVersion:    protocol.ID(rapid.SampledFrom([]string{"", "/ipfscluster/0.12/rpc"}).Draw(t, "rpcv")),
			Error:                 ErrStr().Draw(t, "err"),
			Peername:              Name().Draw(t, "peername"),
		}
		if rapid.Bool().Draw(t, "hasipfs") {
			id.IPFS = IPFSID().Draw(t, "ipfs")
		}
		return id
	})
}

// Metric draws a metric with arbitrary fields.
func Metric() *rapid.Generator[*api.Metric] {
	return rapid.Custom(func(t *rapid.T) *api.Metric {
		return &api.Metric{
			Name:       rapid.SampledFrom([]string{"ping", "freespace", "numpin", ""}).Draw(t, "name"),
			Peer:       Peer().Draw(t, "peer"),
			Value:      rapid.SampledFrom([]string{"", "0", "1234", "18446744073709551615", "x y"}).Draw(t, "value"),
			Expire:     rapid.Int64().Draw(t, "expire"),
			Valid:      rapid.Bool().Draw(t, "valid"),
			ReceivedAt: rapid.Int64().Draw(t, "recv"),
		}
	})
}

// Alert draws an alert.
func Alert() *rapid.Generator[*api.Alert] {
	return rapid.Custom(func(t *rapid.T) *api.Alert {
		return &api.Alert{Metric: *Metric().Draw(t, "m"), TriggeredAt: Timestamp().Draw(t, "at")}
	})
}

// AddedOutput draws an add progress/result record.
func AddedOutput() *rapid.Generator[*api.AddedOutput] {
	return rapid.Custom(func(t *rapid.T) *api.AddedOutput {
		return &api.AddedOutput{
			Name:  Name().Draw(t, "name"),
			Cid:   Cid().Draw(t, "cid"),
			Bytes: rapid.SampledFrom([]uint64{0, 1, 262144, 1 << 62}).Draw(t, "bytes"),
			Size:  rapid.SampledFrom([]uint64{0, 7, 1 << 40}).Draw(t, "size"),
		}
	})
}

// RepoGC draws a per-peer GC result.
func RepoGC() *rapid.Generator[*api.RepoGC] {
	return rapid.Custom(func(t *rapid.T) *api.RepoGC {
		r := &api.RepoGC{Peer: Peer().Draw(t, "peer"), Peername: Name().Draw(t, "pn"), Error: ErrStr().Draw(t, "err"), Keys: []api.IPFSRepoGC{}}
		n := rapid.IntRange(0, 3).Draw(t, "nkeys")
		for i := 0; i < n; i++ {
			k := api.IPFSRepoGC{Error: ErrStr().Draw(t, "kerr")}
			if rapid.Bool().Draw(t, "haskey") {
				k.Key = Cid().Draw(t, "key")
			}
			r.Keys = append(r.Keys, k)
		}
		return r
	})
}

// GlobalRepoGC draws a cluster-wide GC result.
func GlobalRepoGC() *rapid.Generator[*api.GlobalRepoGC] {
	return rapid.Custom(func(t *rapid.T) *api.GlobalRepoGC {
		g := &api.GlobalRepoGC{}
		n := rapid.IntRange(0, 3).Draw(t, "npeers")
		if n > 0 {
			g.PeerMap = map[string]*api.RepoGC{}
		}
		for i := 0; i < n; i++ {
			r := RepoGC().Draw(t, "r")
			g.PeerMap[peer.Encode(r.Peer)] = r
		}
		return g
	})
}

// ConnectGraph draws a connectivity graph.
func ConnectGraph() *rapid.Generator[*api.ConnectGraph] {
	return rapid.Custom(func(t *rapid.T) *api.ConnectGraph {
		g := &api.ConnectGraph{ClusterID: Peer().Draw(t, "cid")}
		n := rapid.IntRange(0, 3).Draw(t, "n")
		if n > 0 {
			g.IDtoPeername = map[string]string{}
			g.IPFSLinks = map[string][]peer.ID{}
			g.ClusterLinks = map[string][]peer.ID{}
			g.ClusterTrustLinks = map[string]bool{}
			g.ClustertoIPFS = map[string]peer.ID{}
		}
		for i := 0; i < n; i++ {
			p := peer.Encode(Peer().Draw(t, "p"))
			g.IDtoPeername[p] = Name().Draw(t, "pn")
			g.IPFSLinks[p] = PeerSubset(len(Peers), 3).Draw(t, "il")
			g.ClusterLinks[p] = PeerSubset(len(Peers), 3).Draw(t, "cl")
			g.ClusterTrustLinks[p] = rapid.Bool().Draw(t, "trust")
			g.ClustertoIPFS[p] = Peer().Draw(t, "ci")
		}
		return g
	})
}

// NodeWithMeta draws a block.
func NodeWithMeta() *rapid.Generator[*api.NodeWithMeta] {
	return rapid.Custom(func(t *rapid.T) *api.NodeWithMeta {
		return &api.NodeWithMeta{
			Data:    rapid.SliceOfN(rapid.Byte(), 0, 40).Draw(t, "data"),
			Cid:     Cid().Draw(t, "cid"),
			CumSize: rapid.Uint64().Draw(t, "cum"),
		}
	})
}

// AddParams draws well-formed add parameters (update source unset: it is
// documented as meaningless for adds).
func AddParams(c OptCfg) *rapid.Generator[*api.AddParams] {
	return rapid.Custom(func(t *rapid.T) *api.AddParams {
		c.PinUpdate = false
		p := api.DefaultAddParams()
		p.PinOptions = Options(c).Draw(t, "opts")
		p.Local = rapid.Bool().Draw(t, "local")
		p.Recursive = rapid.Bool().Draw(t, "recursive")
		p.Hidden = rapid.Bool().Draw(t, "hidden")
		p.Wrap = rapid.Bool().Draw(t, "wrap")
		p.Shard = rapid.Bool().Draw(t, "shard")
		p.StreamChannels = rapid.Bool().Draw(t, "stream")
		p.Format = rapid.SampledFrom([]string{"", "unixfs", "car"}).Draw(t, "format")
		p.Layout = rapid.SampledFrom([]string{"", "balanced", "trickle"}).Draw(t, "layout")
		p.Chunker = rapid.SampledFrom([]string{"size-262144", "size-10", "rabin-16-32-64", "rabin"}).Draw(t, "chunker")
		p.RawLeaves = rapid.Bool().Draw(t, "rawleaves")
		p.Progress = rapid.Bool().Draw(t, "progress")
		p.CidVersion = rapid.IntRange(0, 1).Draw(t, "cidv")
		p.HashFun = rapid.SampledFrom([]string{"sha2-256", "sha2-512", "blake2b-256"}).Draw(t, "hash")
		p.NoCopy = rapid.Bool().Draw(t, "nocopy")
		return p
	})
}

// Describe is a short label for debugging.
func Describe(v interface{}) string { return fmt.Sprintf("%T", v) }
