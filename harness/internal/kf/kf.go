// Package kf reads /verif/known_findings.json (never writes it). A finding
// listed as "open" switches on the generator-side exclusion that keeps the
// search going behind it, and its regression probe prints KNOWN-FINDING
// while it still reproduces. A finding listed as "fixed" suppresses nothing.
package kf

import (
	"encoding/json"
	"os"
	"path/filepath"
	"runtime"
	"sync"
)

// Finding is one entry of known_findings.json.
type Finding struct {
	ID       string `json:"id"`
	Property string `json:"property"`
	Status   string `json:"status"` // "open" or "fixed"
	Commit   string `json:"commit,omitempty"`
	What     string `json:"what"`
}

var (
	once sync.Once
	all  map[string]Finding
)

// Root returns the /verif directory.
func Root() string {
	if r := os.Getenv("VERIF_ROOT"); r != "" {
		return r
	}
	_, file, _, _ := runtime.Caller(0)
	return filepath.Clean(filepath.Join(filepath.Dir(file), "..", "..", ".."))
}

func load() {
	all = map[string]Finding{}
	b, err := os.ReadFile(filepath.Join(Root(), "known_findings.json"))
	if err != nil {
		return
	}
	var f struct {
		Findings []Finding `json:"findings"`
	}
	if json.Unmarshal(b, &f) != nil {
		return
	}
	for _, x := range f.Findings {
		all[x.ID] = x
	}
}

// Open says whether the finding id is listed and not fixed.
func Open(id string) bool {
	once.Do(load)
	f, ok := all[id]
	return ok && f.Status == "open"
}

// Get returns the entry.
func Get(id string) (Finding, bool) {
	once.Do(load)
	f, ok := all[id]
	return f, ok
}
