// Package ev collects what a check run actually covered: per leg (one test
// function = one leg) the number of completed cases, the set of distinct
// non-trivial cases (by hash of a canonical rendering), class histograms,
// counted generator-side exclusions and a deterministic sample of cases. The
// driver merges the per-process JSON files into /verif/evidence/<id>.json.
package ev

import (
	"encoding/json"
	"fmt"
	"hash/fnv"
	"os"
	"sort"
	"sync"
)

const maxSamples = 6
const maxHashes = 400000

type sample struct {
	h uint64
	s string
}

// Leg is the evidence record of one test function.
type Leg struct {
	mu       sync.Mutex
	name     string
	rule     string
	evals    int64
	nt       map[uint64]struct{}
	classes  map[string]int64
	excluded map[string]int64
	samples  []sample
	notes    []string
	inconcl  int64
}

type known struct {
	ID         string `json:"id"`
	Reproduced bool   `json:"reproduced"`
	Detail     string `json:"detail"`
}

var (
	mu     sync.Mutex
	legs   = map[string]*Leg{}
	order  []string
	knowns []known
)

// L returns (creating it on first use) the leg called name. rule says how
// cases are generated and what makes one non-trivial.
func L(name, rule string) *Leg {
	mu.Lock()
	defer mu.Unlock()
	if l, ok := legs[name]; ok {
		return l
	}
	l := &Leg{name: name, rule: rule, nt: map[uint64]struct{}{}, classes: map[string]int64{}, excluded: map[string]int64{}}
	legs[name] = l
	order = append(order, name)
	return l
}

func hash(s string) uint64 {
	h := fnv.New64a()
	h.Write([]byte(s))
	return h.Sum64()
}

// Case records one completed case. canon is a canonical rendering of the
// generated case (used for distinctness and as a sample).
func (l *Leg) Case(canon string, nontrivial bool, classes ...string) {
	l.mu.Lock()
	defer l.mu.Unlock()
	l.evals++
	for _, c := range classes {
		if c != "" {
			l.classes[c]++
		}
	}
	if !nontrivial {
		return
	}
	l.classes["nontrivial"]++
	h := hash(l.name + "\x00" + canon)
	if _, ok := l.nt[h]; ok {
		return
	}
	if len(l.nt) < maxHashes {
		l.nt[h] = struct{}{}
	}
	// deterministic sample: keep the cases with the smallest hashes
	if len(canon) > 1500 {
		canon = canon[:1500] + "...(truncated)"
	}
	l.samples = append(l.samples, sample{h, canon})
	sort.Slice(l.samples, func(i, j int) bool { return l.samples[i].h < l.samples[j].h })
	if len(l.samples) > maxSamples {
		l.samples = l.samples[:maxSamples]
	}
}

// Class bumps a class counter without counting a case.
func (l *Leg) Class(c string, n int64) {
	l.mu.Lock()
	l.classes[c] += n
	l.mu.Unlock()
}

// Excl counts a case (or a part of one) that the generator left out by
// construction because of a listed known finding.
func (l *Leg) Excl(what string) {
	l.mu.Lock()
	l.excluded[what]++
	l.mu.Unlock()
}

// Inconclusive counts a case that could not be judged (deadline without a
// liveness sentinel).
func (l *Leg) Inconclusive(note string) {
	l.mu.Lock()
	l.inconcl++
	if len(l.notes) < 10 {
		l.notes = append(l.notes, note)
	}
	l.mu.Unlock()
}

// Note attaches free text to the leg.
func (l *Leg) Note(format string, a ...interface{}) {
	l.mu.Lock()
	if len(l.notes) < 20 {
		l.notes = append(l.notes, fmt.Sprintf(format, a...))
	}
	l.mu.Unlock()
}

// KnownFinding reports the outcome of the regression probe of a finding
// listed in known_findings.json.
func KnownFinding(id string, reproduced bool, detail string) {
	mu.Lock()
	knowns = append(knowns, known{id, reproduced, detail})
	mu.Unlock()
}

type legOut struct {
	Name         string           `json:"name"`
	Rule         string           `json:"rule"`
	Evals        int64            `json:"evals"`
	Hashes       []string         `json:"hashes"`
	Classes      map[string]int64 `json:"classes"`
	Excluded     map[string]int64 `json:"excluded"`
	Samples      []string         `json:"samples"`
	Notes        []string         `json:"notes"`
	Inconclusive int64            `json:"inconclusive"`
}

// Flush writes everything collected to $VERIF_EV_OUT (no-op when unset).
func Flush() {
	path := os.Getenv("VERIF_EV_OUT")
	if path == "" {
		return
	}
	mu.Lock()
	defer mu.Unlock()
	out := struct {
		Legs   []legOut `json:"legs"`
		Knowns []known  `json:"knowns"`
	}{Knowns: knowns}
	for _, n := range order {
		l := legs[n]
		l.mu.Lock()
		lo := legOut{Name: l.name, Rule: l.rule, Evals: l.evals, Classes: l.classes, Excluded: l.excluded, Notes: l.notes, Inconclusive: l.inconcl}
		for h := range l.nt {
			lo.Hashes = append(lo.Hashes, fmt.Sprintf("%016x", h))
		}
		sort.Strings(lo.Hashes)
		for _, s := range l.samples {
			lo.Samples = append(lo.Samples, s.s)
		}
		l.mu.Unlock()
		out.Legs = append(out.Legs, lo)
	}
	b, _ := json.Marshal(out)
	tmp := path + ".tmp"
	if err := os.WriteFile(tmp, b, 0644); err == nil {
		os.Rename(tmp, path)
	}
}
