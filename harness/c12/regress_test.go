package c12

import (
	"bytes"
	"io/ioutil"
	"mime/multipart"
	"net/http"
	"sync/atomic"
	"testing"

	"verifharness/internal/gen"

	"github.com/ipfs/ipfs-cluster/api"
	peer "github.com/libp2p/go-libp2p-core/peer"
)

func addReq(t *testing.T, query string) (int, string, []string) {
	rec.Reset()
	rec.Set("Cluster.BlockAllocate", func(interface{}) (interface{}, error) { return []peer.ID{gen.Peers[0]}, nil })
	rec.Set("Cluster.Pin", func(arg interface{}) (interface{}, error) { return arg.(*api.Pin), nil })
	rec.Set("Cluster.Unpin", func(arg interface{}) (interface{}, error) { return arg.(*api.Pin), nil })
	var buf bytes.Buffer
	mw := multipart.NewWriter(&buf)
	fw, _ := mw.CreateFormFile("file", "a.txt")
	fw.Write([]byte("hello"))
	mw.Close()
	req, _ := http.NewRequest("POST", proxyURL+"/api/v0/add?"+query, &buf)
	req.Header.Set("Content-Type", mw.FormDataContentType())
	resp, err := client.Do(req)
	if err != nil {
		t.Fatal(err)
	}
	b, _ := ioutil.ReadAll(resp.Body)
	resp.Body.Close()
	st := resp.StatusCode
	if resp.Trailer.Get("X-Stream-Error") != "" {
		st = 500 // streamed error
	}
	return st, string(b), callNames(rec.Take())
}

func TestRegressOnlyHash(t *testing.T) {
	st, body, calls := addReq(t, "only-hash=true")
	if st < 400 {
		t.Fatalf("only-hash=true answered %d %q", st, body)
	}
	for _, c := range calls {
		if isWrite(c) {
			t.Fatalf("only-hash=true answered an error but wrote to the cluster: %v", calls)
		}
	}
}

func TestRegressPinFalse(t *testing.T) {
	_, _, calls := addReq(t, "pin=false")
	n := 0
	for _, c := range calls {
		if c == "Cluster.Unpin" {
			n++
		}
	}
	if n != 1 {
		t.Fatalf("add?pin=false: cluster received %d unpins: %v", n, calls)
	}
}

func TestRegressSha512V0(t *testing.T) {
	st, body, calls := addReq(t, "hash=sha2-512")
	if st < 400 {
		t.Fatalf("hash=sha2-512 with CIDv0 answered %d %q", st, body)
	}
	for _, c := range calls {
		if isWrite(c) {
			t.Fatalf("wrote to the cluster: %v", calls)
		}
	}
}

// fixed 0edfe19: the responses of the header-extraction requests were never
// closed; with a daemon answering them with a body every hijacked request
// left a connection open (the thorough tier ran out of descriptors after
// 9994 cases per process).
func TestRegressDaemonConnectionsBounded(t *testing.T) {
	for i := 0; i < 400; i++ {
		req, _ := http.NewRequest("POST", proxyURLs[0]+"/api/v0/pin/ls", nil)
		resp, err := client.Do(req)
		if err != nil {
			t.Fatal(err)
		}
		ioutil.ReadAll(resp.Body)
		resp.Body.Close()
	}
	if n := atomic.LoadInt64(&daemon.conns); n > 100 {
		t.Fatalf("after 400 hijacked requests the daemon has %d connections open from the proxy", n)
	}
}
