// Package c12: the IPFS proxy intercepts exactly the pinning endpoints and
// relays the rest.
package c12

import (
	"bytes"
	"encoding/json"
	"fmt"
	"io"
	"io/ioutil"
	"mime/multipart"
	"net"
	"net/http"
	"net/http/httptest"
	"net/url"
	"os"
	"sort"
	"strings"
	"sync"
	"sync/atomic"
	"testing"
	"time"

	"verifharness/internal/ev"
	"verifharness/internal/fakes"
	"verifharness/internal/gen"
	"verifharness/internal/kf"

	cid "github.com/ipfs/go-cid"
	path "github.com/ipfs/go-path"
	"github.com/ipfs/ipfs-cluster/api"
	"github.com/ipfs/ipfs-cluster/api/ipfsproxy"
	peer "github.com/libp2p/go-libp2p-core/peer"
	ma "github.com/multiformats/go-multiaddr"
	"pgregory.net/rapid"
)

// Known findings.
const (
	KFOnlyHash = "C12-add-only-hash-continues"
	KFNoPin    = "C12-add-pin-false-does-not-unpin"
)

type daemonReq struct {
	method, path, rawQuery string
	body                   []byte
}

type fakeDaemon struct {
	mu     sync.Mutex
	reqs   []daemonReq
	status int
	body   string
	srv    *httptest.Server
	conns  int64 // connections currently open at the daemon
}

func (d *fakeDaemon) handler(w http.ResponseWriter, r *http.Request) {
	b, _ := ioutil.ReadAll(r.Body)
	d.mu.Lock()
	d.reqs = append(d.reqs, daemonReq{r.Method, r.URL.EscapedPath(), r.URL.RawQuery, b})
	st, body := d.status, d.body
	d.mu.Unlock()
	w.Header().Set("X-Daemon", "fake")
	w.WriteHeader(st)
	w.Write([]byte(body))
}

func (d *fakeDaemon) take() []daemonReq {
	d.mu.Lock()
	defer d.mu.Unlock()
	r := d.reqs
	d.reqs = nil
	return r
}

var (
	daemon    *fakeDaemon
	rec       *fakes.Recorder
	proxyURL  string // the instance of the running case
	proxyURLs []string
	client    = &http.Client{Timeout: 20 * time.Second, CheckRedirect: func(*http.Request, []*http.Request) error { return http.ErrUseLastResponse }}
)

func TestMain(m *testing.M) {
	daemon = &fakeDaemon{status: 200, body: "{}"}
	daemon.srv = httptest.NewUnstartedServer(http.HandlerFunc(daemon.handler))
	daemon.srv.Config.ConnState = func(c net.Conn, st http.ConnState) {
		switch st {
		case http.StateNew:
			atomic.AddInt64(&daemon.conns, 1)
		case http.StateClosed, http.StateHijacked:
			atomic.AddInt64(&daemon.conns, -1)
		}
	}
	daemon.srv.Start()
	rec = fakes.NewRecorder()
	// two proxy instances in front of the same fake daemon and recorder:
	// request tracing off and on (tracing installs another handler chain)
	for _, tracing := range []bool{false, true} {
		l, err := net.Listen("tcp", "127.0.0.1:0")
		if err != nil {
			panic(err)
		}
		port := l.Addr().(*net.TCPAddr).Port
		l.Close()
		cfg := &ipfsproxy.Config{}
		cfg.Default()
		la, _ := ma.NewMultiaddr(fmt.Sprintf("/ip4/127.0.0.1/tcp/%d", port))
		cfg.ListenAddr = []ma.Multiaddr{la}
		host, dport, _ := net.SplitHostPort(strings.TrimPrefix(daemon.srv.URL, "http://"))
		cfg.NodeAddr, _ = ma.NewMultiaddr(fmt.Sprintf("/ip4/%s/tcp/%s", host, dport))
		// a short header deadline and (the default) no deadline for the body: an
		// upload may take longer than the headers are allowed to
		cfg.ReadHeaderTimeout = 400 * time.Millisecond
		cfg.Tracing = tracing
		proxy, err := ipfsproxy.New(cfg)
		if err != nil {
			panic(err)
		}
		proxy.SetClient(fakes.NewRecordingRPC(rec))
		proxyURLs = append(proxyURLs, fmt.Sprintf("http://127.0.0.1:%d", port))
		for i := 0; i < 200; i++ {
			c, err := net.Dial("tcp", fmt.Sprintf("127.0.0.1:%d", port))
			if err == nil {
				c.Close()
				break
			}
			time.Sleep(10 * time.Millisecond)
		}
	}
	proxyURL = proxyURLs[0]
	code := m.Run()
	ev.Flush()
	os.Exit(code)
}

func isWrite(name string) bool {
	switch name {
	case "Cluster.Pin", "Cluster.PinPath", "Cluster.Unpin", "Cluster.UnpinPath", "IPFSConnector.BlockPut":
		return true
	}
	return false
}

func callNames(cs []fakes.RPCCall) []string {
	var s []string
	for _, c := range cs {
		s = append(s, c.Name)
	}
	return s
}

type argSpec struct {
	raw   string // what is sent
	valid bool
	slash bool // expressible as a single path segment
}

func drawArg(t *rapid.T) argSpec {
	c := gen.CidN(6).Draw(t, "cid").String()
	switch rapid.IntRange(0, 7).Draw(t, "argkind") {
	case 0, 1:
		return argSpec{c, true, true}
	case 2:
		return argSpec{"/ipfs/" + c, true, false}
	case 3:
		return argSpec{"/ipfs/" + c + "/sub dir/file?x", true, false}
	case 4:
		return argSpec{"/ipns/example.org/a", true, false}
	case 5:
		return argSpec{"notacid", false, true}
	case 6:
		return argSpec{"/ipfs/notacid", false, false}
	default:
		return argSpec{"/ipld/" + c, true, false}
	}
}

const ruleHijack = "(invariant: at most 100 connections open at the daemon at any time) (proxy instance with request tracing off or on) hijacked routes (pin/add, pin/rm, pin/ls, pin/update, repo/stat, repo/gc, add) with methods POST/GET/PUT, both argument styles (?arg= and /path/{arg}), the endpoint path spelled plainly or with a percent-encoded slash or letter, valid and invalid CIDs and paths, multipart uploads that break off between two parts, options (type, unpin, stream-errors, pin, only-hash, trickle, layout, chunker, raw-leaves, cid-version, hash, wrap-with-directory, stream-channels, invalid values), cluster answering success or error; oracle: the expected cluster call(s) with the requested path and options, nothing written when the proxy answers with an error, never relayed to the daemon; non-trivial = at least one option or an error; distinct by request line"

func TestHijacked(t *testing.T) {
	leg := ev.L("hijacked", ruleHijack)
	rapid.Check(t, func(t *rapid.T) {
		proxyURL = proxyURLs[rapid.IntRange(0, 1).Draw(t, "tracingInstance")]
		rec.Reset()
		daemon.take()
		method := rapid.SampledFrom([]string{"POST", "POST", "GET", "PUT"}).Draw(t, "method")
		route := rapid.SampledFrom([]string{"pin/add", "pin/rm", "pin/ls", "pin/update", "repo/stat", "repo/gc", "add", "add"}).Draw(t, "route")
		clusterFails := rapid.IntRange(0, 5).Draw(t, "clusterFails") == 0
		q := url.Values{}
		// the endpoint may be spelled with percent-encoded characters: the
		// daemon dispatches on the decoded path, so it is the same endpoint
		spelled := route
		switch rapid.SampledFrom([]string{"plain", "plain", "plain", "encoded-slash", "encoded-letter"}).Draw(t, "spelling") {
		case "encoded-slash":
			spelled = strings.Replace(route, "/", "%2F", 1)
		case "encoded-letter":
			i := strings.LastIndex(route, "/") + 1
			spelled = route[:i] + fmt.Sprintf("%%%02X", route[i]) + route[i+1:]
		}
		u := proxyURL + "/api/v0/" + spelled
		var body []byte
		ctype := ""
		nontrivial := false
		expectErr := false
		truncatedCase := false // the answer may be an error or not; see the add route
		var check func(status int, respBody []byte, trailer http.Header, calls []fakes.RPCCall)
		fail := func(format string, a ...interface{}) {
			t.Fatalf("%s\nrequest: %s %s?%s\ncalls: %v", fmt.Sprintf(format, a...), method, u, q.Encode(), callNames(rec.Take()))
		}
		failing := func(name string) {
			rec.Set(name, func(interface{}) (interface{}, error) { return nil, fmt.Errorf("injected cluster error") })
		}
		switch route {
		case "pin/add", "pin/rm":
			a := drawArg(t)
			slash := a.slash && rapid.Bool().Draw(t, "slashstyle")
			if slash {
				u += "/" + url.PathEscape(a.raw)
			} else {
				q.Set("arg", a.raw)
			}
			typ := rapid.SampledFrom([]string{"", "recursive", "direct", "weird"}).Draw(t, "type")
			if typ != "" {
				q.Set("type", typ)
				nontrivial = true
			}
			name := map[string]string{"pin/add": "Cluster.PinPath", "pin/rm": "Cluster.UnpinPath"}[route]
			resCid := gen.Cids[7]
			if clusterFails {
				failing(name)
			} else {
				rec.Set(name, func(interface{}) (interface{}, error) { return api.PinCid(resCid), nil })
			}
			expectErr = !a.valid || clusterFails
			check = func(status int, rb []byte, tr http.Header, calls []fakes.RPCCall) {
				if !a.valid {
					if len(calls) != 0 {
						fail("invalid path %q but the cluster was called", a.raw)
					}
					return
				}
				if len(calls) != 1 || calls[0].Name != name {
					fail("expected exactly one %s call", name)
				}
				pp := calls[0].Arg.(*api.PinPath)
				want, _ := path.ParsePath(a.raw)
				if pp.Path != want.String() {
					fail("cluster received path %q, requested %q (= %q)", pp.Path, a.raw, want.String())
				}
				wantMode := api.PinModeRecursive
				if typ == "direct" {
					wantMode = api.PinModeDirect
				}
				if pp.Mode != wantMode {
					fail("cluster received mode %v, requested type %q", pp.Mode, typ)
				}
				if !clusterFails {
					var r struct{ Pins []string }
					if err := json.Unmarshal(rb, &r); err != nil || len(r.Pins) != 1 || r.Pins[0] != resCid.String() {
						fail("response %q does not carry the pinned cid", rb)
					}
				}
			}
		case "pin/ls":
			hasArg := rapid.Bool().Draw(t, "hasarg")
			a := argSpec{}
			if hasArg {
				c := gen.CidN(6).Draw(t, "cid")
				a = argSpec{c.String(), true, true}
				if rapid.IntRange(0, 3).Draw(t, "bad") == 0 {
					a = argSpec{"notacid", false, true}
				}
				if rapid.Bool().Draw(t, "slashstyle") {
					u += "/" + url.PathEscape(a.raw)
				} else {
					q.Set("arg", a.raw)
				}
				nontrivial = true
			}
			pins := []*api.Pin{api.PinCid(gen.Cids[0]), api.PinCid(gen.Cids[1])}
			if clusterFails {
				failing("Cluster.PinGet")
				failing("Cluster.Pins")
			} else {
				rec.Set("Cluster.PinGet", func(arg interface{}) (interface{}, error) { return api.PinCid(arg.(cid.Cid)), nil })
				rec.Set("Cluster.Pins", func(interface{}) (interface{}, error) { return pins, nil })
			}
			expectErr = (hasArg && !a.valid) || clusterFails
			check = func(status int, rb []byte, tr http.Header, calls []fakes.RPCCall) {
				for _, c := range calls {
					if isWrite(c.Name) {
						fail("pin/ls wrote to the cluster")
					}
				}
				if expectErr {
					return
				}
				var r struct {
					Keys map[string]struct{ Type string }
				}
				if err := json.Unmarshal(rb, &r); err != nil {
					fail("bad pin/ls response %q", rb)
				}
				if hasArg {
					if len(calls) != 1 || calls[0].Name != "Cluster.PinGet" || !calls[0].Arg.(cid.Cid).Equals(cidMust(a.raw)) {
						fail("expected PinGet(%s)", a.raw)
					}
					if len(r.Keys) != 1 {
						fail("pin/ls?arg response has %d keys", len(r.Keys))
					}
				} else {
					if len(calls) != 1 || calls[0].Name != "Cluster.Pins" {
						fail("expected one Pins call")
					}
					if len(r.Keys) != len(pins) {
						fail("pin/ls lists %d keys, cluster has %d pins", len(r.Keys), len(pins))
					}
				}
			}
		case "pin/update":
			nargs := rapid.SampledFrom([]int{2, 2, 2, 1, 0}).Draw(t, "nargs")
			from, to := drawArg(t), drawArg(t)
			if nargs >= 1 {
				q.Add("arg", from.raw)
			}
			if nargs >= 2 {
				q.Add("arg", to.raw)
			}
			unpinOpt := rapid.SampledFrom([]string{"", "true", "false"}).Draw(t, "unpin")
			if unpinOpt != "" {
				q.Set("unpin", unpinOpt)
				nontrivial = true
			}
			fromCid := gen.Cids[8]
			resolveFails := rapid.IntRange(0, 6).Draw(t, "resolveFails") == 0
			if resolveFails {
				failing("IPFSConnector.Resolve")
			} else {
				rec.Set("IPFSConnector.Resolve", func(interface{}) (interface{}, error) { return fromCid, nil })
			}
			if clusterFails {
				failing("Cluster.PinPath")
			} else {
				rec.Set("Cluster.PinPath", func(interface{}) (interface{}, error) { return api.PinCid(gen.Cids[9]), nil })
			}
			rec.Set("Cluster.Unpin", func(interface{}) (interface{}, error) { return api.PinCid(fromCid), nil })
			valid := nargs == 2 && from.valid && to.valid
			expectErr = !valid || resolveFails || clusterFails
			check = func(status int, rb []byte, tr http.Header, calls []fakes.RPCCall) {
				if !valid {
					for _, c := range calls {
						if isWrite(c.Name) {
							fail("malformed pin/update wrote to the cluster")
						}
					}
					return
				}
				names := callNames(calls)
				if len(calls) == 0 || calls[0].Name != "IPFSConnector.Resolve" {
					fail("expected Resolve(from) first, got %v", names)
				}
				pf, _ := path.ParsePath(from.raw)
				if calls[0].Arg.(string) != pf.String() {
					fail("Resolve received %q, want %q", calls[0].Arg, pf.String())
				}
				if resolveFails {
					if len(calls) != 1 {
						fail("resolution failed but more calls followed: %v", names)
					}
					return
				}
				if len(calls) < 2 || calls[1].Name != "Cluster.PinPath" {
					fail("expected PinPath second, got %v", names)
				}
				pp := calls[1].Arg.(*api.PinPath)
				pt, _ := path.ParsePath(to.raw)
				if pp.Path != pt.String() || !pp.PinUpdate.Equals(fromCid) {
					fail("PinPath got path %q update %s, want %q update %s", pp.Path, pp.PinUpdate, pt.String(), fromCid)
				}
				if clusterFails {
					if len(calls) != 2 {
						fail("PinPath failed but more calls followed: %v", names)
					}
					return
				}
				if unpinOpt == "false" {
					if len(calls) != 2 {
						fail("unpin=false but calls are %v", names)
					}
				} else {
					if len(calls) != 3 || calls[2].Name != "Cluster.Unpin" || !calls[2].Arg.(*api.Pin).Cid.Equals(fromCid) {
						fail("expected Unpin(from) third, got %v", names)
					}
				}
			}
		case "repo/stat":
			n := rapid.IntRange(0, 4).Draw(t, "npeers")
			peers := gen.Peers[:n]
			rec.Set("Consensus.Peers", func(interface{}) (interface{}, error) { return append([]peer.ID{}, peers...), nil })
			// one member's daemon may be down: its call fails (the k-th to
			// arrive; the recording RPC has no notion of destinations), the
			// figures of the others still add up
			failK := -1
			if n > 0 && rapid.IntRange(0, 2).Draw(t, "onePeerFails") == 0 {
				failK = rapid.IntRange(0, n-1).Draw(t, "failingCall")
				nontrivial = true
			}
			var arrived int64
			rec.Set("IPFSConnector.RepoStat", func(interface{}) (interface{}, error) {
				if k := atomic.AddInt64(&arrived, 1) - 1; int(k) == failK {
					return nil, fmt.Errorf("ipfs daemon unreachable")
				}
				return api.IPFSRepoStat{RepoSize: 7, StorageMax: 100}, nil
			})
			check = func(status int, rb []byte, tr http.Header, calls []fakes.RPCCall) {
				var st api.IPFSRepoStat
				if err := json.Unmarshal(rb, &st); err != nil {
					fail("bad repo/stat response %q", rb)
				}
				up := n
				if failK >= 0 {
					up--
				}
				if st.RepoSize != uint64(7*up) || st.StorageMax != uint64(100*up) {
					fail("repo/stat = %+v, want the sum over the %d of %d members that answered {7,100}", st, up, n)
				}
			}
		case "repo/gc":
			streamErrors := rapid.Bool().Draw(t, "streamErrors")
			if streamErrors {
				q.Set("stream-errors", "true")
				nontrivial = true
			}
			g := gen.GlobalRepoGC().Draw(t, "gc")
			if clusterFails {
				failing("Cluster.RepoGC")
			} else {
				rec.Set("Cluster.RepoGC", func(interface{}) (interface{}, error) { return *g, nil })
			}
			expectErr = clusterFails
			check = func(status int, rb []byte, tr http.Header, calls []fakes.RPCCall) {
				if len(calls) != 1 || calls[0].Name != "Cluster.RepoGC" {
					fail("expected one RepoGC call")
				}
				if clusterFails {
					return
				}
				wantKeys, wantErrs := 0, 0
				for _, r := range g.PeerMap {
					for _, k := range r.Keys {
						wantKeys++
						if k.Error != "" {
							wantErrs++
						}
					}
				}
				dec := json.NewDecoder(bytes.NewReader(rb))
				got, gotErrs := 0, 0
				for dec.More() {
					var o struct {
						Key   interface{}
						Error string
					}
					if err := dec.Decode(&o); err != nil {
						fail("bad repo/gc stream %q", rb)
					}
					got++
					if o.Error != "" {
						gotErrs++
					}
				}
				if got != wantKeys {
					fail("repo/gc streamed %d entries, the members collected %d", got, wantKeys)
				}
				if streamErrors && gotErrs != wantErrs {
					fail("stream-errors=true: %d inline errors, want %d", gotErrs, wantErrs)
				}
				if !streamErrors && wantErrs > 0 && tr.Get("X-Stream-Error") == "" {
					fail("collection errors but no X-Stream-Error trailer")
				}
			}
		case "add":
			onlyHash := rapid.IntRange(0, 3).Draw(t, "onlyHash") == 0
			noPin := rapid.IntRange(0, 2).Draw(t, "noPin") == 0
			if onlyHash && kf.Open(KFOnlyHash) {
				leg.Excl("add?only-hash=true not generated (" + KFOnlyHash + ")")
				onlyHash = false
			}
			if noPin && kf.Open(KFNoPin) {
				leg.Excl("add?pin=false not generated (" + KFNoPin + ")")
				noPin = false
			}
			if onlyHash {
				q.Set("only-hash", "true")
			}
			if noPin {
				q.Set("pin", "false")
			}
			badOpt := ""
			for _, o := range [][2]string{{"trickle", "true"}, {"layout", "trickle"}, {"chunker", "size-10"}, {"raw-leaves", "true"}, {"cid-version", "1"}, {"hash", "sha2-512"}, {"wrap-with-directory", "true"}, {"stream-channels", "false"}, {"progress", "true"}} {
				if rapid.IntRange(0, 3).Draw(t, "opt-"+o[0]) == 0 {
					q.Set(o[0], o[1])
					nontrivial = true
				}
			}
			if rapid.IntRange(0, 5).Draw(t, "badopt") == 0 {
				bo := rapid.SampledFrom([][2]string{{"layout", "weird"}, {"cid-version", "x"}, {"raw-leaves", "maybe"}, {"replication-min", "a"}}).Draw(t, "badoptv")
				q.Set(bo[0], bo[1])
				badOpt = bo[0]
			}
			notMultipart := rapid.IntRange(0, 6).Draw(t, "notMultipart") == 0
			truncated := false
			method = "POST"
			if notMultipart {
				body = []byte("plain body")
				ctype = "text/plain"
			} else {
				var buf bytes.Buffer
				mw := multipart.NewWriter(&buf)
				nf := rapid.IntRange(1, 2).Draw(t, "nfiles")
				for i := 0; i < nf; i++ {
					fw, _ := mw.CreateFormFile("file", fmt.Sprintf("f%d.txt", i))
					fw.Write(bytes.Repeat([]byte{byte('a' + i)}, rapid.IntRange(0, 50).Draw(t, "size")))
				}
				mw.Close()
				body = buf.Bytes()
				ctype = mw.FormDataContentType()
				if nf > 1 {
					q.Set("wrap-with-directory", "true")
				}
				// an upload that breaks off between two parts: the first file
				// arrived completely, the next part never starts
				if nf > 1 && rapid.IntRange(0, 1).Draw(t, "truncated") == 0 {
					delim := []byte("\r\n--" + mw.Boundary() + "\r\n")
					if i := bytes.Index(body[10:], delim); i > 0 {
						// cut right after the boundary, after its line end, inside the
						// next part's headers, or inside its content
						cut := 10 + i + len(delim)
						switch rapid.IntRange(0, 3).Draw(t, "cutAt") {
						case 0:
							cut -= 2
						case 2:
							cut += 20
						case 3:
							if j := bytes.Index(body[cut:], []byte("\r\n\r\n")); j > 0 {
								cut += j + 4 + rapid.IntRange(0, 3).Draw(t, "intoContent")
							}
						}
						if cut > len(body)-4 {
							cut = len(body) - 4
						}
						body = body[:cut]
						truncated = true
						if rapid.Bool().Draw(t, "noWrap") {
							q.Del("wrap-with-directory")
						}
					}
				}
			}
			rec.Set("Cluster.BlockAllocate", func(interface{}) (interface{}, error) { return []peer.ID{gen.Peers[0]}, nil })
			if clusterFails {
				failing("Cluster.Pin")
			} else {
				rec.Set("Cluster.Pin", func(arg interface{}) (interface{}, error) { return arg.(*api.Pin), nil })
			}
			rec.Set("Cluster.Unpin", func(arg interface{}) (interface{}, error) { return arg.(*api.Pin), nil })
			// sha2-512 needs CIDv1: "invalid v0 prefix"
			badCombo := q.Get("hash") == "sha2-512" && q.Get("cid-version") != "1"
			invalid := notMultipart || badOpt != "" || onlyHash || badCombo
			if truncated && !invalid {
				nontrivial = true
				truncatedCase = true
				check = func(status int, rb []byte, tr http.Header, calls []fakes.RPCCall) {
					// whether such a body counts as complete is the multipart
					// reader's call (a wrapped upload is accepted as far as it
					// got); the claim is only: an error answer means nothing pinned
					if (status < 400 && tr.Get("X-Stream-Error") == "") || clusterFails {
						return // accepted as far as it got, or the error is the injected pin failure itself
					}
					for _, c := range calls {
						if c.Name == "Cluster.Pin" || c.Name == "Cluster.PinPath" {
							fail("the add was answered with an error (%q) but the cluster pinned: %v", tr.Get("X-Stream-Error"), callNames(calls))
						}
					}
				}
				break
			}
			expectErr = invalid || clusterFails
			nontrivial = nontrivial || onlyHash || noPin || invalid
			check = func(status int, rb []byte, tr http.Header, calls []fakes.RPCCall) {
				names := callNames(calls)
				if invalid {
					if status < 400 && tr.Get("X-Stream-Error") == "" {
						fail("invalid add request (multipart=%v badopt=%q only-hash=%v) was not answered with an error: %d %q", !notMultipart, badOpt, onlyHash, status, rb)
					}
					for _, c := range calls {
						if isWrite(c.Name) {
							fail("add request answered with an error but the cluster was written to: %v", names)
						}
					}
					return
				}
				pins, unpins, puts := 0, 0, 0
				var root cid.Cid
				for _, c := range calls {
					switch c.Name {
					case "Cluster.Pin":
						pins++
						root = c.Arg.(*api.Pin).Cid
					case "Cluster.Unpin":
						unpins++
						if p, ok := c.Arg.(*api.Pin); !ok || !p.Cid.Equals(root) {
							fail("Unpin received %v, want the added root %s", c.Arg, root)
						}
					case "IPFSConnector.BlockPut":
						puts++
					}
				}
				if puts == 0 || pins != 1 {
					fail("add: %d blocks put, %d pins (want >=1 and 1): %v", puts, pins, names)
				}
				if clusterFails {
					if tr.Get("X-Stream-Error") == "" && status < 400 {
						fail("the cluster failed to pin but the add response reports no error")
					}
					return
				}
				if noPin && unpins != 1 {
					fail("add?pin=false: the cluster received %d unpins of the root, want 1 (trailer %q)", unpins, tr.Get("X-Stream-Error"))
				}
				if !noPin && unpins != 0 {
					fail("add without pin=false unpinned the root")
				}
			}
		}
		if len(q) > 0 {
			u += "?" + q.Encode()
		}
		req, err := http.NewRequest(method, u, bytes.NewReader(body))
		if err != nil {
			t.Fatal(err)
		}
		if ctype != "" {
			req.Header.Set("Content-Type", ctype)
		}
		resp, err := client.Do(req)
		if err != nil {
			t.Fatalf("request failed: %v (%s %s)", err, method, u)
		}
		rb, _ := ioutil.ReadAll(resp.Body)
		resp.Body.Close()
		calls := rec.Take()
		dreqs := daemon.take()
		for _, d := range dreqs {
			// the proxy asks the daemon for CORS headers (OPTIONS on the same
			// path) and for its extra headers (POST to the configured
			// extraction path): neither is the call being replaced
			if d.method == "OPTIONS" || (d.method == "POST" && d.path == "/api/v0/version") {
				continue
			}
			t.Fatalf("hijacked request reached the daemon: %s %s?%s\nrequest: %s %s", d.method, d.path, d.rawQuery, method, u)
		}
		answeredErr := resp.StatusCode >= 400 || resp.Trailer.Get("X-Stream-Error") != ""
		if expectErr && !answeredErr && !truncatedCase {
			t.Fatalf("expected an error answer, got %d %q\nrequest: %s %s", resp.StatusCode, rb, method, u)
		}
		if answeredErr && route != "pin/update" && route != "add" {
			for _, c := range calls {
				if isWrite(c.Name) && !clusterFails {
					t.Fatalf("answered with an error but wrote to the cluster: %v\nrequest: %s %s", callNames(calls), method, u)
				}
			}
		}
		if route == "repo/gc" && !clusterFails {
			answeredErr = resp.StatusCode >= 400 // collection errors legitimately travel in the trailer
		}
		if !expectErr && answeredErr && !truncatedCase {
			t.Fatalf("valid request answered with an error: %d %q trailer %q\nrequest: %s %s", resp.StatusCode, rb, resp.Trailer.Get("X-Stream-Error"), method, u)
		}
		check(resp.StatusCode, rb, resp.Trailer, calls)
		cl := []string{"route:" + route}
		if truncatedCase {
			cl = append(cl, "truncated-upload")
			if answeredErr {
				cl = append(cl, "truncated-upload-refused")
			}
		}
		if expectErr {
			cl = append(cl, "error-answer")
		}
		// the proxy talks to the daemon for every hijacked request (CORS and
		// header probes): those conversations must end
		if n := atomic.LoadInt64(&daemon.conns); n > 100 {
			t.Fatalf("the IPFS daemon has %d connections open from the proxy: answering hijacked requests leaves connections to the daemon behind (the proxy stops answering when the descriptors run out)", n)
		}
		leg.Case(method+" "+u, nontrivial || expectErr, cl...)
	})
}

func cidMust(s string) cid.Cid {
	c, err := cid.Decode(s)
	if err != nil {
		panic(err)
	}
	return c
}

const ruleRelay = "requests that are not hijacked: other methods (OPTIONS, HEAD, DELETE, PATCH) on hijacked paths, other API paths, near misses (/api/v0/pin/verify, /api/v1/pin/add, /api/v0/pin/add/x/y, /api/v0/addx, /api/v0/repo/stat/x), arbitrary paths, raw queries with encodings and repeated keys, against a proxy with request tracing off or on, bodies (raw, url-encoded form or multipart; one in twelve uploaded with a pause longer than the proxy's header deadline); the daemon answers a generated status and body; oracle: the daemon received the same method, path, raw query and body bytes and the client got the daemon's status and body, and no cluster call happened; non-trivial = body and query both present; distinct by request"

func TestRelayed(t *testing.T) {
	leg := ev.L("relayed", ruleRelay)
	rapid.Check(t, func(t *rapid.T) {
		proxyURL = proxyURLs[rapid.IntRange(0, 1).Draw(t, "tracingInstance")]
		rec.Reset()
		daemon.take()
		hijackedPaths := []string{"/api/v0/pin/add", "/api/v0/pin/rm", "/api/v0/pin/ls", "/api/v0/pin/update", "/api/v0/add", "/api/v0/repo/stat", "/api/v0/repo/gc", "/api/v0/pin/add/" + gen.Cids[0].String()}
		other := []string{"/api/v0/id", "/api/v0/pin/verify", "/api/v1/pin/add", "/api/v0/pin/add/x/y", "/api/v0/addx", "/api/v0/repo/stat/x", "/api/v0/block/get", "/webui", "/", "/api/v0/files/ls", "/ipfs/" + gen.Cids[1].String() + "/a%20b", "/api/v0/pin", "/api/v0/repo", "/api/v0/swarm/peers"}
		var p, method string
		if rapid.IntRange(0, 2).Draw(t, "onHijackedPath") == 0 {
			p = rapid.SampledFrom(hijackedPaths).Draw(t, "hpath")
			method = rapid.SampledFrom([]string{"OPTIONS", "HEAD", "DELETE", "PATCH"}).Draw(t, "method")
		} else {
			p = rapid.SampledFrom(other).Draw(t, "path")
			method = rapid.SampledFrom([]string{"POST", "GET", "PUT", "OPTIONS", "HEAD", "DELETE"}).Draw(t, "method")
		}
		rawQuery := rapid.SampledFrom([]string{"", "arg=" + gen.Cids[0].String(), "arg=a%20b&arg=c+d&x=%2Fy", "a=1&a=2&b", "arg=/ipfs/" + gen.Cids[2].String() + "&recursive=true&progress=true", "q=%E2%9C%93;x"}).Draw(t, "query")
		var body []byte
		bodyType := ""
		if method != "GET" && method != "HEAD" && method != "OPTIONS" && rapid.Bool().Draw(t, "hasbody") {
			switch rapid.IntRange(0, 2).Draw(t, "bodyKind") {
			case 0:
				body = rapid.SliceOfN(rapid.Byte(), 1, 200).Draw(t, "body")
			case 1:
				// form bodies are what go-ipfs clients send (block/put, config...)
				body = []byte("arg=" + url.QueryEscape(rapid.StringMatching("[a-z /=&]{1,30}").Draw(t, "formv")) + "&x=1")
				bodyType = "application/x-www-form-urlencoded"
			default:
				var buf bytes.Buffer
				mw := multipart.NewWriter(&buf)
				fw, _ := mw.CreateFormFile("data", "blob")
				fw.Write(rapid.SliceOfN(rapid.Byte(), 1, 300).Draw(t, "mpdata"))
				mw.Close()
				body = buf.Bytes()
				bodyType = mw.FormDataContentType()
			}
		}
		status := rapid.SampledFrom([]int{200, 200, 204, 400, 404, 500}).Draw(t, "status")
		rbody := rapid.SampledFrom([]string{"{}", "{\"Message\":\"x\",\"Code\":0,\"Type\":\"error\"}", "plain text", ""}).Draw(t, "rbody")
		if status == 204 {
			rbody = ""
		}
		daemon.mu.Lock()
		daemon.status, daemon.body = status, rbody
		daemon.mu.Unlock()
		u := proxyURL + p
		if rawQuery != "" {
			u += "?" + rawQuery
		}
		var rd io.Reader = bytes.NewReader(body)
		slow := len(body) >= 2 && rapid.IntRange(0, 11).Draw(t, "slowbody") == 0
		if slow {
			// the upload pauses for longer than the header deadline
			pr, pw := io.Pipe()
			go func() {
				pw.Write(body[:len(body)/2])
				time.Sleep(900 * time.Millisecond)
				pw.Write(body[len(body)/2:])
				pw.Close()
			}()
			rd = pr
		}
		req, err := http.NewRequest(method, u, rd)
		if slow && err == nil {
			req.ContentLength = int64(len(body))
		}
		if err == nil && bodyType != "" {
			req.Header.Set("Content-Type", bodyType)
		}
		if err != nil {
			t.Fatal(err)
		}
		req.URL.RawQuery = rawQuery
		resp, err := client.Do(req)
		if err != nil {
			t.Fatalf("request failed: %v (%s %s)", err, method, u)
		}
		got, _ := ioutil.ReadAll(resp.Body)
		resp.Body.Close()
		daemon.mu.Lock()
		daemon.status, daemon.body = 200, "{}"
		daemon.mu.Unlock()
		calls := rec.Take()
		dreqs := daemon.take()
		if len(calls) != 0 {
			t.Fatalf("a request that is not hijacked produced cluster calls %v\nrequest: %s %s", callNames(calls), method, u)
		}
		if len(dreqs) != 1 {
			t.Fatalf("the daemon received %d requests, want 1\nrequest: %s %s", len(dreqs), method, u)
		}
		d := dreqs[0]
		wantPath := req.URL.EscapedPath()
		if d.method != method || d.path != wantPath || d.rawQuery != rawQuery || !bytes.Equal(d.body, body) {
			t.Fatalf("relayed request differs: daemon got %s %s?%s body %d bytes; sent %s %s?%s body %d bytes", d.method, d.path, d.rawQuery, len(d.body), method, wantPath, rawQuery, len(body))
		}
		if resp.StatusCode != status {
			t.Fatalf("client got status %d, the daemon answered %d\nrequest: %s %s", resp.StatusCode, status, method, u)
		}
		if method != "HEAD" && string(got) != rbody {
			t.Fatalf("client got body %q, the daemon answered %q\nrequest: %s %s", got, rbody, method, u)
		}
		if resp.Header.Get("X-Daemon") != "fake" {
			t.Fatalf("daemon response header lost")
		}
		cl := []string{"method:" + method}
		if slow {
			cl = append(cl, "slow-body")
		}
		leg.Case(fmt.Sprintf("%s %s?%s body=%x -> %d", method, p, rawQuery, body, status), len(body) > 0 && rawQuery != "", cl...)
	})
}

var _ = sort.Strings
