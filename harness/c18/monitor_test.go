package c18

import (
	"context"
	"fmt"
	"sync"
	"sync/atomic"
	"testing"
	"time"

	"verifharness/internal/ev"
	"verifharness/internal/fakes"
	"verifharness/internal/gen"

	"github.com/ipfs/ipfs-cluster/api"
	"github.com/ipfs/ipfs-cluster/monitor/pubsubmon"
	peer "github.com/libp2p/go-libp2p-core/peer"
	pubsub "github.com/libp2p/go-libp2p-pubsub"
	"pgregory.net/rapid"
)

var (
	psMonOnce sync.Once
	psMon     *pubsubmon.Monitor
	psMonCase int64
)

func theMonitor() *pubsubmon.Monitor {
	psMonOnce.Do(func() {
		h := fakes.NewHost(gen.PeerKeys[7], false)
		psub, err := pubsub.NewGossipSub(ctx, h)
		if err != nil {
			panic(err)
		}
		cfg := &pubsubmon.Config{}
		cfg.Default()
		cfg.CheckInterval = time.Hour
		members := append([]peer.ID{h.ID()}, gen.Peers[:4]...)
		psMon, err = pubsubmon.New(ctx, cfg, psub, func(context.Context) ([]peer.ID, error) { return members, nil })
		if err != nil {
			panic(err)
		}
		psMon.SetClient(nil) // starts the receiving loop
	})
	return psMon
}

const ruleMonitorMix = "one real pubsubmon.Monitor (libp2p host + gossipsub, receiving its own topic): 2-4 goroutines each publish 5-20 uniquely named metrics with PublishMetric, each waiting for its previous one to come back before the next (so at most 4 messages are in flight and the 32-message subscription buffer cannot overflow), while 0-2 goroutines call LatestMetrics / MetricNames / LogMetric; oracle: race detector silent, no panic, all finish, every published metric arrives in the monitor's store with the peer and value it was published with, and no metric name appears that nobody published; non-trivial = always (publishers overlap); distinct by parameters"

func TestMonitorMix(t *testing.T) {
	leg := ev.L("monitor-mix", ruleMonitorMix)
	rapid.Check(t, func(t *rapid.T) {
		mon := theMonitor()
		pubs := rapid.IntRange(2, 4).Draw(t, "publishers")
		per := rapid.IntRange(5, 20).Draw(t, "metricsEach")
		readers := rapid.IntRange(0, 2).Draw(t, "readers")
		cn := atomic.AddInt64(&psMonCase, 1)
		var stop int32
		var done int32
		var workers []func()
		for w := 0; w < pubs; w++ {
			w := w
			workers = append(workers, func() {
				defer func() {
					if atomic.AddInt32(&done, 1) == int32(pubs) {
						atomic.StoreInt32(&stop, 1)
					}
				}()
				for i := 0; i < per; i++ {
					name := fmt.Sprintf("mix%d-w%d-i%d", cn, w, i)
					m := &api.Metric{Name: name, Peer: gen.Peers[w], Value: fmt.Sprintf("v%d.%d.%d", cn, w, i), Valid: true}
					m.SetTTL(time.Hour)
					if err := mon.PublishMetric(ctx, m); err != nil {
						panic(fmt.Sprintf("PublishMetric(%s): %v", name, err))
					}
					deadline := time.Now().Add(15 * time.Second)
					for {
						got := mon.LatestMetrics(ctx, name)
						if len(got) == 1 {
							if got[0].Peer != m.Peer || got[0].Value != m.Value || got[0].Name != name {
								panic(fmt.Sprintf("metric %s arrived as peer=%s value=%q, published as peer=%s value=%q", name, got[0].Peer, got[0].Value, m.Peer, m.Value))
							}
							break
						}
						if len(got) > 1 {
							panic(fmt.Sprintf("metric %s arrived %d times for one peer", name, len(got)))
						}
						if time.Now().After(deadline) {
							panic(fmt.Sprintf("metric %s (publisher %d of %d, its metric %d) was published without error but did not arrive in the monitor's own store within 15s", name, w, pubs, i))
						}
						time.Sleep(200 * time.Microsecond)
					}
				}
			})
		}
		for r := 0; r < readers; r++ {
			r := r
			workers = append(workers, func() {
				for i := 0; atomic.LoadInt32(&stop) == 0; i++ {
					switch (i + r) % 3 {
					case 0:
						mon.MetricNames(ctx)
					case 1:
						mon.LatestMetrics(ctx, fmt.Sprintf("mix%d-w0-i0", cn))
					case 2:
						m := &api.Metric{Name: fmt.Sprintf("mix%d-logged%d", cn, r), Peer: gen.Peers[3], Value: "1", Valid: true}
						m.SetTTL(time.Hour)
						mon.LogMetric(ctx, m)
					}
					time.Sleep(100 * time.Microsecond)
				}
			})
		}
		runAll(t, "monitor mix", workers)
		for _, n := range mon.MetricNames(ctx) {
			var a, b, c int
			if k, _ := fmt.Sscanf(n, "mix%d-w%d-i%d", &a, &b, &c); k == 3 {
				continue
			}
			if k, _ := fmt.Sscanf(n, "mix%d-logged%d", &a, &b); k == 2 {
				continue
			}
			die("monitor mix", fmt.Sprintf("the monitor holds a metric named %q, which nobody published", n))
		}
		leg.Case(fmt.Sprintf("publishers=%d each=%d readers=%d", pubs, per, readers), true)
	})
}
