// Package c18: concurrent use of the API never races, panics, deadlocks or
// tears results. Built with -race.
package c18

import (
	"context"
	"fmt"
	"io/ioutil"
	"os"
	"runtime"
	"runtime/pprof"
	"sort"
	"strings"
	"sync"
	"sync/atomic"
	"testing"
	"time"

	"verifharness/internal/ev"
	"verifharness/internal/fakes"
	"verifharness/internal/gen"

	cid "github.com/ipfs/go-cid"
	ipfscluster "github.com/ipfs/ipfs-cluster"
	"github.com/ipfs/ipfs-cluster/api"
	"github.com/ipfs/ipfs-cluster/consensus/crdt"
	"github.com/ipfs/ipfs-cluster/informer/disk"
	"github.com/ipfs/ipfs-cluster/informer/numpin"
	"github.com/ipfs/ipfs-cluster/monitor/metrics"
	"github.com/ipfs/ipfs-cluster/pintracker/optracker"
	peer "github.com/libp2p/go-libp2p-core/peer"
	mh "github.com/multiformats/go-multihash"
	"pgregory.net/rapid"
)

func TestMain(m *testing.M) {
	code := m.Run()
	ev.Flush()
	os.Exit(code)
}

var ctx = context.Background()

// die reports a violation and ends the process: a recovered panic can leave
// a mutex of the component held and schedule-dependent failures do not
// shrink, so handing the failure to rapid would only wedge the run.
func die(what, detail string) {
	fmt.Printf("%s\n--- FAIL: %s\n", detail, what)
	ev.Flush()
	os.Exit(1)
}

// runAll runs the workers concurrently and fails if one panics or does not
// finish within the watchdog (operations take micro- to milliseconds).
func runAll(t *rapid.T, what string, workers []func()) {
	var wg sync.WaitGroup
	panicked := make(chan string, len(workers))
	for _, w := range workers {
		w := w
		wg.Add(1)
		go func() {
			defer wg.Done()
			defer func() {
				if r := recover(); r != nil {
					buf := make([]byte, 1<<14)
					n := runtime.Stack(buf, false)
					panicked <- fmt.Sprintf("%v\n%s", r, buf[:n])
				}
			}()
			w()
		}()
	}
	done := make(chan struct{})
	go func() { wg.Wait(); close(done) }()
	select {
	case <-done:
		select {
		case p := <-panicked:
			die(what, "a worker panicked: "+p)
		default:
		}
	case p := <-panicked:
		die(what, "a worker panicked: "+p)
	case <-time.After(60 * time.Second):
		var sb strings.Builder
		pprof.Lookup("goroutine").WriteTo(&sb, 1)
		dump := sb.String()
		if len(dump) > 30000 {
			dump = dump[:30000]
		}
		die(what, "workers did not finish within 60 s (deadlock?)\n"+dump)
	}
}

type opList []int

func drawOps(t *rapid.T, nworkers, kinds int) []opList {
	out := make([]opList, nworkers)
	for i := range out {
		out[i] = rapid.SliceOfN(rapid.IntRange(0, kinds-1), 5, 40).Draw(t, "ops")
	}
	return out
}

func yield(i int) {
	if i%3 == 0 {
		runtime.Gosched()
	}
}

const ruleTracker = "2-6 goroutines, each with a drawn list of 5-40 operations (track local/remote, untrack, status, status listing with a filter, recover, recover all) over 3 CIDs on one real stateless tracker with a model daemon that answers immediately (and, in half of the cases, fails every call for one of the CIDs); GOMAXPROCS drawn from {2,4,16}; each mix runs 3 times; oracle: race detector silent, no panic, all goroutines finish, the listing has at most one entry per CID, an error status always comes with its message; non-trivial = two goroutines touch the same CID and one of them writes; distinct by mix"

func TestTrackerMix(t *testing.T) {
	leg := ev.L("tracker-mix", ruleTracker)
	rapid.Check(t, func(t *rapid.T) {
		nw := rapid.IntRange(2, 6).Draw(t, "workers")
		procs := rapid.SampledFrom([]int{2, 4, 16}).Draw(t, "gomaxprocs")
		ops := drawOps(t, nw, 7)
		cids := make([][]int, nw)
		for i := range cids {
			cids[i] = rapid.SliceOfN(rapid.IntRange(0, 2), len(ops[i]), len(ops[i])).Draw(t, "cids")
		}
		old := runtime.GOMAXPROCS(procs)
		defer runtime.GOMAXPROCS(old)
		self, other := gen.Peers[0], gen.Peers[1]
		failC2 := rapid.Bool().Draw(t, "daemonFailsOneCid")
		errStatus := api.TrackerStatusPinError | api.TrackerStatusUnpinError | api.TrackerStatusClusterError
		tornCheck := func(pi *api.PinInfo) {
			if pi != nil && pi.Status&errStatus != 0 && pi.Status != api.TrackerStatusUndefined && pi.Error == "" {
				panic(fmt.Sprintf("status of %s is %s with an empty error message (torn read of a failing operation)", pi.Cid, pi.Status))
			}
		}
		for rep := 0; rep < 3; rep++ {
			f := fakes.NewTracker(self, rapid.SampledFrom([]int{2, 100}).Draw(t, "queue"), 2)
			if failC2 {
				bad := gen.Cids[2].String()
				f.D.FailFor = func(kind string, c cid.Cid) bool { return c.String() == bad }
			}
			var workers []func()
			for w := 0; w < nw; w++ {
				w := w
				workers = append(workers, func() {
					for i, op := range ops[w] {
						c := gen.Cids[cids[w][i]]
						switch op {
						case 0:
							p := api.PinCid(c)
							p.Allocations = []peer.ID{self}
							p.ReplicationFactorMin, p.ReplicationFactorMax = 1, 1
							f.St.Add(ctx, p)
							f.T.Track(ctx, p)
						case 1:
							p := api.PinCid(c)
							p.Allocations = []peer.ID{other}
							p.ReplicationFactorMin, p.ReplicationFactorMax = 1, 1
							f.St.Add(ctx, p)
							f.T.Track(ctx, p)
						case 2:
							f.St.Rm(ctx, c)
							f.T.Untrack(ctx, c)
						case 3:
							tornCheck(f.T.Status(ctx, c))
						case 4:
							seen := map[string]bool{}
							for _, pi := range f.T.StatusAll(ctx, api.TrackerStatusUndefined) {
								tornCheck(pi)
								if seen[pi.Cid.String()] {
									panic("StatusAll has two entries for " + pi.Cid.String())
								}
								seen[pi.Cid.String()] = true
							}
						case 5:
							f.T.Recover(ctx, c)
						case 6:
							f.T.RecoverAll(ctx)
						}
						yield(i)
					}
				})
			}
			runAll(t, "tracker mix", workers)
			f.Close()
		}
		leg.Case(fmt.Sprintf("procs=%d ops=%v cids=%v", procs, ops, cids), sharedWrite(ops, cids, []int{0, 1, 2}))
	})
}

// sharedWrite reports whether two workers touch the same key and one writes.
func sharedWrite(ops []opList, keys [][]int, writers []int) bool {
	isW := map[int]bool{}
	for _, w := range writers {
		isW[w] = true
	}
	type acc struct{ r, w map[int]bool }
	by := map[int]*acc{}
	for w := range ops {
		for i, op := range ops[w] {
			k := 0
			if keys != nil {
				k = keys[w][i]
			}
			a := by[k]
			if a == nil {
				a = &acc{map[int]bool{}, map[int]bool{}}
				by[k] = a
			}
			if isW[op] {
				a.w[w] = true
			} else {
				a.r[w] = true
			}
		}
	}
	for _, a := range by {
		if len(a.w) >= 2 {
			return true
		}
		if len(a.w) == 1 {
			for r := range a.r {
				if !a.w[r] {
					return true
				}
			}
		}
	}
	return false
}

const ruleStatusWhile = "one goroutine tracks 300-600 pins allocated to this peer (pinset entry written first, never removed) on a real stateless tracker with an instantly answering daemon while 1-3 goroutines poll Status of CIDs already handed to the tracker: a CID that is in the pinset, allocated here and never untracked must never be reported as unpinned or remote (a torn read of the operation table shows exactly that); oracle also: race detector silent, no panic, all finish; non-trivial = always; distinct by parameters"

func TestStatusWhilePinning(t *testing.T) {
	leg := ev.L("status-while-pinning", ruleStatusWhile)
	rapid.Check(t, func(t *rapid.T) {
		n := rapid.IntRange(300, 600).Draw(t, "pins")
		pollers := rapid.IntRange(1, 3).Draw(t, "pollers")
		workersN := rapid.SampledFrom([]int{1, 2, 8}).Draw(t, "pinWorkers")
		f := fakes.NewTracker(gen.Peers[0], 100000, workersN)
		defer f.Close()
		cids := make([]cid.Cid, n)
		for i := range cids {
			h, _ := mh.Sum([]byte(fmt.Sprintf("c18-status-%d", i)), mh.SHA2_256, -1)
			cids[i] = cid.NewCidV1(cid.Raw, h)
		}
		var progress int64
		var done int32
		var workers []func()
		workers = append(workers, func() {
			for i, c := range cids {
				p := api.PinCid(c)
				p.Allocations = []peer.ID{gen.Peers[0]}
				p.ReplicationFactorMin, p.ReplicationFactorMax = 1, 1
				f.St.Add(ctx, p)
				f.T.Track(ctx, p)
				atomic.StoreInt64(&progress, int64(i+1))
			}
			atomic.StoreInt32(&done, 1)
		})
		for p := 0; p < pollers; p++ {
			p := p
			workers = append(workers, func() {
				for k := 0; atomic.LoadInt32(&done) == 0; k++ {
					hi := atomic.LoadInt64(&progress)
					if hi == 0 {
						runtime.Gosched()
						continue
					}
					// poll the most recently tracked ones: their operations are
					// the ones finishing right now
					i := hi - 1 - int64((k+p)%4)
					if i < 0 {
						i = 0
					}
					st := f.T.Status(ctx, cids[i]).Status
					if st == api.TrackerStatusUnpinned || st == api.TrackerStatusRemote {
						panic(fmt.Sprintf("Status of pin #%d (in the pinset, allocated here, never untracked) is %s", i, st))
					}
				}
			})
		}
		runAll(t, "status while pinning", workers)
		leg.Case(fmt.Sprintf("pins=%d pollers=%d workers=%d", n, pollers, workersN), true)
	})
}

const ruleOpt = "2-6 goroutines with drawn lists of operations on one bare OperationTracker over 3 CIDs: TrackNewOperation (pin/unpin/remote, queued or in progress), SetPhase/SetError/Cancel on the returned operation, Clean, CleanAllDone, Status, SetError, Get, GetAll, Filter by type and phase, OpContext, String; each mix runs 3 times; oracle: race detector silent, no panic, all finish, GetAll has one entry per CID; non-trivial = two goroutines touch the same CID and one writes; distinct by mix"

func TestOpTrackerMix(t *testing.T) {
	leg := ev.L("optracker-mix", ruleOpt)
	rapid.Check(t, func(t *rapid.T) {
		nw := rapid.IntRange(2, 6).Draw(t, "workers")
		ops := drawOps(t, nw, 14)
		cids := make([][]int, nw)
		for i := range cids {
			cids[i] = rapid.SliceOfN(rapid.IntRange(0, 2), len(ops[i]), len(ops[i])).Draw(t, "cids")
		}
		for rep := 0; rep < 3; rep++ {
			opt := optracker.NewOperationTracker(ctx, gen.Peers[0], "self")
			var workers []func()
			for w := 0; w < nw; w++ {
				w := w
				workers = append(workers, func() {
					var last *optracker.Operation
					for i, op := range ops[w] {
						c := gen.Cids[cids[w][i]]
						switch op {
						case 0:
							last = opt.TrackNewOperation(ctx, api.PinCid(c), optracker.OperationPin, optracker.PhaseQueued)
						case 1:
							last = opt.TrackNewOperation(ctx, api.PinCid(c), optracker.OperationUnpin, optracker.PhaseInProgress)
						case 2:
							last = opt.TrackNewOperation(ctx, api.PinCid(c), optracker.OperationRemote, optracker.PhaseDone)
						case 3:
							if last != nil {
								last.SetPhase(optracker.PhaseDone)
							}
						case 4:
							if last != nil {
								last.SetError(fmt.Errorf("e%d", i))
							}
						case 5:
							if last != nil {
								last.Cancel()
								last.Cancelled()
							}
						case 6:
							if last != nil {
								opt.Clean(ctx, last)
							}
						case 7:
							opt.CleanAllDone(ctx)
						case 8:
							opt.Status(ctx, c)
						case 9:
							opt.SetError(ctx, c, fmt.Errorf("x%d", i))
						case 10:
							opt.Get(ctx, c)
							opt.GetExists(ctx, c)
						case 11:
							seen := map[string]bool{}
							for _, pi := range opt.GetAll(ctx) {
								if seen[pi.Cid.String()] {
									panic("GetAll has two entries for one CID")
								}
								seen[pi.Cid.String()] = true
							}
						case 12:
							opt.Filter(ctx, optracker.OperationPin, optracker.PhaseError)
							opt.Filter(ctx, optracker.PhaseInProgress)
						case 13:
							opt.OpContext(ctx, c)
							_ = opt.String()
							if last != nil {
								_ = last.String()
							}
						}
						yield(i)
					}
				})
			}
			runAll(t, "optracker mix", workers)
		}
		leg.Case(fmt.Sprintf("ops=%v cids=%v", ops, cids), sharedWrite(ops, cids, []int{0, 1, 2, 3, 4, 5, 6, 7, 9}))
	})
}

const ruleMetrics = "2-6 goroutines with drawn lists of operations (log a valid / expired metric, read LatestValid, PeerLatest, PeerMetricAll, Distribution, CheckPeers, CheckAll, RemovePeer, RemovePeerMetrics, AllMetrics, MetricNames, drain alerts) over 2 metric names x 3 peers on one real metrics.Store + Checker; each mix runs 3 times; oracle: race detector silent, no panic, all finish, LatestValid has one entry per peer; non-trivial = two goroutines touch the same name with a writer; distinct by mix"

func TestMetricsMix(t *testing.T) {
	leg := ev.L("metrics-mix", ruleMetrics)
	rapid.Check(t, func(t *rapid.T) {
		nw := rapid.IntRange(2, 6).Draw(t, "workers")
		ops := drawOps(t, nw, 12)
		keys := make([][]int, nw)
		for i := range keys {
			keys[i] = rapid.SliceOfN(rapid.IntRange(0, 5), len(ops[i]), len(ops[i])).Draw(t, "keys")
		}
		names := []string{"ping", "m1"}
		for rep := 0; rep < 3; rep++ {
			store := metrics.NewStore()
			checker := metrics.NewChecker(ctx, store, 3.0)
			var workers []func()
			for w := 0; w < nw; w++ {
				w := w
				workers = append(workers, func() {
					for i, op := range ops[w] {
						name := names[keys[w][i]%2]
						p := gen.Peers[keys[w][i]/2]
						switch op {
						case 0, 1:
							m := &api.Metric{Name: name, Peer: p, Value: "1", Valid: true}
							if op == 0 {
								m.Expire = time.Now().Add(time.Hour).UnixNano()
							} else {
								m.Expire = time.Now().Add(-time.Hour).UnixNano()
							}
							store.Add(m)
						case 2:
							seen := map[peer.ID]bool{}
							for _, m := range store.LatestValid(name) {
								if seen[m.Peer] {
									panic("LatestValid has two entries for one peer")
								}
								seen[m.Peer] = true
							}
						case 3:
							store.PeerLatest(name, p)
						case 4:
							store.PeerMetricAll(name, p)
						case 5:
							if len(store.PeerMetricAll(name, p)) > 1 {
								store.Distribution(name, p)
							}
						case 6:
							checker.CheckPeers(gen.Peers[:3])
						case 7:
							checker.CheckAll()
						case 8:
							store.RemovePeer(p)
						case 9:
							select {
							case <-checker.Alerts():
							default:
							}
						case 10:
							// what the checker does once a pair has been reported
							store.RemovePeerMetrics(p, name)
						case 11:
							store.AllMetrics()
							store.MetricNames()
						}
						yield(i)
					}
				})
			}
			runAll(t, "metrics mix", workers)
		}
		leg.Case(fmt.Sprintf("ops=%v keys=%v", ops, keys), sharedWrite(ops, nil, []int{0, 1, 6, 7, 8, 10}))
	})
}

const ruleAlertFull = "a real metrics.Store + Checker whose alert channel nobody reads: one goroutine logs expired metrics under 300-400 distinct names, another runs CheckAll/CheckPeers in a loop, so that more alerts are raised than the channel holds; oracle: no call blocks (watchdog), no panic, race detector silent - a full alert channel is an error answer, not a wedge; non-trivial = always; distinct by parameters"

func TestAlertChannelFull(t *testing.T) {
	leg := ev.L("alert-channel-full", ruleAlertFull)
	rapid.Check(t, func(t *rapid.T) {
		n := rapid.IntRange(300, 400).Draw(t, "names")
		checkers := rapid.IntRange(1, 2).Draw(t, "checkers")
		store := metrics.NewStore()
		checker := metrics.NewChecker(ctx, store, 3.0)
		var done int32
		var workers []func()
		workers = append(workers, func() {
			for i := 0; i < n; i++ {
				store.Add(&api.Metric{Name: fmt.Sprintf("m%d", i), Peer: gen.Peers[i%3], Value: "1", Valid: true, Expire: time.Now().Add(-time.Hour).UnixNano()})
				if i%8 == 0 {
					runtime.Gosched()
				}
			}
			// a few more rounds of checks after the last metric
			time.Sleep(20 * time.Millisecond)
			atomic.StoreInt32(&done, 1)
		})
		for c := 0; c < checkers; c++ {
			c := c
			workers = append(workers, func() {
				for k := 0; atomic.LoadInt32(&done) == 0; k++ {
					if (k+c)%2 == 0 {
						checker.CheckAll()
					} else {
						checker.CheckPeers(gen.Peers[:3])
					}
				}
				// the channel is full by now: further checks must still return
				checker.CheckAll()
				checker.CheckPeers(gen.Peers[:3])
			})
		}
		runAll(t, "alert channel full", workers)
		leg.Case(fmt.Sprintf("names=%d checkers=%d queued=%d", n, checkers, len(checker.Alerts())), true)
	})
}

const ruleWindow = "2-6 goroutines with drawn lists of operations (Add, Latest, All, Distribution) on one bare metrics.Window of capacity 1-5 holding one metric at the start; each mix runs 3 times; oracle: race detector silent, no panic, all finish, All() never longer than the capacity and, per adding goroutine, newest-first; non-trivial = a writer and another goroutine overlap; distinct by mix"

func TestWindowMix(t *testing.T) {
	leg := ev.L("window-mix", ruleWindow)
	rapid.Check(t, func(t *rapid.T) {
		nw := rapid.IntRange(2, 6).Draw(t, "workers")
		capN := rapid.IntRange(1, 5).Draw(t, "cap")
		ops := drawOps(t, nw, 4)
		for rep := 0; rep < 3; rep++ {
			w := metrics.NewWindow(capN)
			w.Add(&api.Metric{Name: "m", Peer: gen.Peers[0], Value: "0", Valid: true})
			var workers []func()
			for wk := 0; wk < nw; wk++ {
				wk := wk
				workers = append(workers, func() {
					for i, op := range ops[wk] {
						switch op {
						case 0:
							w.Add(&api.Metric{Name: "m", Peer: gen.Peers[0], Value: fmt.Sprint(wk, i), Valid: true})
						case 1:
							if m, err := w.Latest(); err != nil || m == nil {
								panic("Latest() on a non-empty window failed")
							}
						case 2:
							all := w.All()
							if len(all) > capN || len(all) == 0 {
								panic(fmt.Sprintf("All() returned %d entries from a window of capacity %d", len(all), capN))
							}
							// per adding goroutine, newest first (ReceivedAt is
							// stamped before the lock, so only the per-goroutine
							// order is determined)
							lastOf := map[int]int{}
							for _, m := range all {
								var awk, ai int
								if n, _ := fmt.Sscan(m.Value, &awk, &ai); n != 2 {
									continue
								}
								if prev, ok := lastOf[awk]; ok && ai > prev {
									panic("All() is not newest-first for the adds of one goroutine")
								}
								lastOf[awk] = ai
							}
						case 3:
							w.Distribution()
						}
						yield(i)
					}
				})
			}
			runAll(t, "window mix", workers)
		}
		leg.Case(fmt.Sprintf("cap=%d ops=%v", capN, ops), sharedWrite(ops, nil, []int{0}))
	})
}

const ruleAlerts = "a real Cluster with 1-3 informers and a harness-fed alert channel: one goroutine injects 1100-1300 uniquely stamped alerts (crossing the 1000-entry reset), 1-3 goroutines read Cluster.Alerts() in a loop, 0-2 goroutines pin/unpin/list; oracle: race detector silent, no panic, all finish, every returned list has no zero-valued entry, no duplicated stamp and is newest-first, and the metric of every informer was published at least once; non-trivial = always (readers and writer overlap); distinct by parameters"

func TestAlertsMix(t *testing.T) {
	leg := ev.L("alerts-mix", ruleAlerts)
	rapid.Check(t, func(t *rapid.T) {
		readers := rapid.IntRange(1, 3).Draw(t, "readers")
		pinners := rapid.IntRange(0, 2).Draw(t, "pinners")
		total := rapid.IntRange(1100, 1300).Draw(t, "alerts")
		extras := []string{"extra-a", "extra-b"}[:rapid.IntRange(0, 2).Draw(t, "extraInformers")]
		f := fakes.NewCluster(fakes.ClusterOpts{Key: gen.PeerKeys[2], ExtraInformers: extras, Mutate: func(cfg *ipfscluster.Config) { cfg.DisableRepinning = false }})
		defer f.Close()
		f.S.SetPeers([]peer.ID{f.ID})
		var stop int32
		var workers []func()
		workers = append(workers, func() {
			for i := 1; i <= total; i++ {
				f.Mon.AlertCh <- &api.Alert{Metric: api.Metric{Name: "stamp", Peer: gen.Peers[i%3], Value: fmt.Sprint(i), Valid: true}, TriggeredAt: time.Unix(int64(i), 0)}
			}
			// wait until the handler consumed everything, then stop the readers
			for len(f.Mon.AlertCh) > 0 {
				time.Sleep(time.Millisecond)
			}
			atomic.StoreInt32(&stop, 1)
		})
		for r := 0; r < readers; r++ {
			workers = append(workers, func() {
				for atomic.LoadInt32(&stop) == 0 {
					al := f.C.Alerts()
					seen := map[string]bool{}
					prev := int64(1 << 62)
					for _, a := range al {
						if a.Name == "" || a.Value == "" {
							panic(fmt.Sprintf("Alerts() returned a zero-valued entry among %d", len(al)))
						}
						if seen[a.Value] {
							panic("Alerts() returned a duplicated entry " + a.Value)
						}
						seen[a.Value] = true
						ts := a.TriggeredAt.Unix()
						if ts > prev {
							panic("Alerts() is not newest-first")
						}
						prev = ts
					}
					runtime.Gosched()
				}
			})
		}
		for p := 0; p < pinners; p++ {
			p := p
			workers = append(workers, func() {
				for i := 0; atomic.LoadInt32(&stop) == 0; i++ {
					c := gen.Cids[(i+p)%3]
					f.C.Pin(ctx, c, api.PinOptions{ReplicationFactorMin: -1, ReplicationFactorMax: -1})
					f.C.Pins(ctx)
					f.C.Unpin(ctx, c)
					f.C.StatusLocal(ctx, c)
				}
			})
		}
		runAll(t, "alerts mix", workers)
		// each informer has its own publishing loop, started with the peer
		seen := map[string]int{}
		names := append([]string{f.Inf.Name()}, extras...)
		for deadline := time.Now().Add(5 * time.Second); ; time.Sleep(10 * time.Millisecond) {
			pubs, _ := f.Mon.TakePublished()
			for _, m := range pubs {
				seen[m.Name]++
			}
			missing := ""
			for _, name := range names {
				if seen[name] == 0 {
					missing = name
				}
			}
			if missing == "" {
				break
			}
			if time.Now().After(deadline) {
				die("alerts mix", fmt.Sprintf("the peer runs %d informers but the metric of %q was never published (published so far: %v)", len(names), missing, seen))
			}
		}
		leg.Case(fmt.Sprintf("readers=%d pinners=%d alerts=%d informers=%d", readers, pinners, total, 1+len(extras)), true)
	})
}

type repoStatSvc struct{}

func (s *repoStatSvc) RepoStat(ctx context.Context, in struct{}, out *api.IPFSRepoStat) error {
	*out = api.IPFSRepoStat{RepoSize: 1, StorageMax: 10}
	return nil
}
func (s *repoStatSvc) PinLs(ctx context.Context, in string, out *map[string]api.IPFSPinStatus) error {
	*out = map[string]api.IPFSPinStatus{}
	return nil
}

const ruleShutdown = "shutdown while in use: disk and numpin informers (GetMetric in 1-3 goroutines || Shutdown; also with an IPFS request that hangs until the peer cancels it), a single-member Raft consensus (LogPin/LogUnpin || Shutdown), a CRDT replica with batching (LogPin/LogUnpin in 1-3 goroutines || Shutdown), a Cluster (Pin/Pins/StatusLocal/Alerts in 1-3 goroutines || Shutdown), a Cluster that is still booting (reads || Shutdown at once or the moment Ready() fires), a stateless tracker (Track/Status || Shutdown); the shutdown happens after a drawn number of operations; oracle: race detector silent, no panic, everything returns within the watchdog; non-trivial = always; distinct by component + parameters"

func TestShutdownMix(t *testing.T) {
	leg := ev.L("shutdown-mix", ruleShutdown)
	caseN := 0
	rapid.Check(t, func(t *rapid.T) {
		caseN++
		comp := rapid.SampledFrom([]string{"disk", "numpin", "disk-slow-ipfs", "numpin-slow-ipfs", "crdt", "raft", "cluster", "cluster-boot", "tracker"}).Draw(t, "component")
		users := rapid.IntRange(1, 3).Draw(t, "users")
		after := rapid.IntRange(0, 30).Draw(t, "shutdownAfter")
		var opCount int64
		var use func(i int)
		var shutdown func()
		var cleanup func()
		rec := fakes.NewRecorder()
		rec.Set("IPFSConnector.RepoStat", func(interface{}) (interface{}, error) { return api.IPFSRepoStat{RepoSize: 1, StorageMax: 10}, nil })
		rec.Set("IPFSConnector.PinLs", func(interface{}) (interface{}, error) { return map[string]api.IPFSPinStatus{}, nil })
		client := fakes.NewRecordingRPC(rec)
		switch comp {
		case "disk":
			cfg := &disk.Config{}
			cfg.Default()
			inf, err := disk.NewInformer(cfg)
			if err != nil {
				t.Fatal(err)
			}
			inf.SetClient(client)
			use = func(int) { inf.GetMetric(ctx) }
			shutdown = func() { inf.Shutdown(ctx) }
		case "numpin":
			cfg := &numpin.Config{}
			cfg.Default()
			inf, err := numpin.NewInformer(cfg)
			if err != nil {
				t.Fatal(err)
			}
			inf.SetClient(client)
			use = func(int) { inf.GetMetric(ctx) }
			shutdown = func() { inf.Shutdown(ctx) }
		case "disk-slow-ipfs", "numpin-slow-ipfs":
			// the IPFS daemon does not answer: the informer's request is only
			// abandoned when the peer cancels its context, which
			// Cluster.Shutdown does after it has shut the informers down
			gate := make(chan struct{})
			hang := func(interface{}) (interface{}, error) {
				select {
				case <-gate:
				case <-time.After(90 * time.Second):
				}
				return nil, fmt.Errorf("context canceled")
			}
			rec.Set("IPFSConnector.RepoStat", hang)
			rec.Set("IPFSConnector.PinLs", hang)
			var inf ipfscluster.Informer
			if comp == "disk-slow-ipfs" {
				cfg := &disk.Config{}
				cfg.Default()
				di, err := disk.NewInformer(cfg)
				if err != nil {
					t.Fatal(err)
				}
				inf = di
			} else {
				cfg := &numpin.Config{}
				cfg.Default()
				ni, err := numpin.NewInformer(cfg)
				if err != nil {
					t.Fatal(err)
				}
				inf = ni
			}
			inf.SetClient(client)
			after = 0
			use = func(int) { inf.GetMetric(ctx) }
			shutdown = func() {
				time.Sleep(time.Duration(users) * time.Millisecond)
				inf.Shutdown(ctx)
				close(gate)
			}
		case "crdt":
			r := fakes.NewCRDTReplica(gen.PeerKeys[3], func(c *crdt.Config) {
				c.ClusterName = fmt.Sprintf("verif-c18-%d-%d", os.Getpid(), caseN)
				c.TrustAll = true
				c.Batching.MaxBatchSize = 3
				c.Batching.MaxBatchAge = 20 * time.Millisecond
			})
			use = func(i int) {
				if i%3 == 2 {
					r.Cons.LogUnpin(ctx, api.PinCid(gen.Cids[i%3]))
				} else {
					r.Cons.LogPin(ctx, api.PinCid(gen.Cids[i%3]))
				}
			}
			shutdown = func() { r.Cons.Shutdown(ctx) }
			cleanup = func() { r.H.Close() }
		case "raft":
			// a single-member Raft peer: operations keep arriving at the leader
			// while it shuts down; each must return (acknowledged or refused)
			dir, err := ioutil.TempDir("", "c18-raft-")
			if err != nil {
				t.Fatal(err)
			}
			rp := fakes.NewRaftHost(gen.PeerKeys[8], dir)
			rp.Init = []peer.ID{rp.H.ID()}
			if err := rp.Start(false); err != nil {
				t.Fatalf("VERIF-INFRA: raft peer: %v", err)
			}
			if err := rp.WaitReady(30 * time.Second); err != nil {
				t.Fatalf("VERIF-INFRA: %v", err)
			}
			use = func(i int) {
				if i%3 == 2 {
					rp.Cons.LogUnpin(ctx, api.PinCid(gen.Cids[i%3]))
				} else {
					rp.Cons.LogPin(ctx, api.PinCid(gen.Cids[i%3]))
				}
			}
			shutdown = func() { rp.Stop() }
			cleanup = func() { rp.H.Close(); os.RemoveAll(dir) }
		case "cluster":
			f := fakes.NewCluster(fakes.ClusterOpts{Key: gen.PeerKeys[4]})
			f.S.SetPeers([]peer.ID{f.ID})
			use = func(i int) {
				c := gen.Cids[i%3]
				switch i % 4 {
				case 0:
					f.C.Pin(ctx, c, api.PinOptions{ReplicationFactorMin: -1, ReplicationFactorMax: -1})
				case 1:
					f.C.Pins(ctx)
				case 2:
					f.C.StatusLocal(ctx, c)
				default:
					f.C.Alerts()
				}
			}
			shutdown = func() { f.C.Shutdown(ctx) }
			cleanup = func() { f.Host.Close() }
		case "cluster-boot":
			// Shutdown may arrive while the peer is still starting up
			f := fakes.NewClusterNoWait(fakes.ClusterOpts{Key: gen.PeerKeys[5]})
			use = func(i int) {
				switch i % 3 {
				case 0:
					f.C.Pins(ctx)
				case 1:
					f.C.StatusLocal(ctx, gen.Cids[i%3])
				default:
					f.C.Alerts()
				}
			}
			shutdown = func() {
				if after%2 == 1 {
					// the caller reacts to Ready() by shutting down
					<-f.C.Ready()
				}
				f.C.Shutdown(ctx)
			}
			cleanup = func() { f.Host.Close() }
		case "tracker":
			f := fakes.NewTracker(gen.Peers[0], 10, 2)
			use = func(i int) {
				c := gen.Cids[i%3]
				if i%2 == 0 {
					p := api.PinCid(c)
					p.ReplicationFactorMin, p.ReplicationFactorMax = -1, -1
					f.St.Add(ctx, p)
					f.T.Track(ctx, p)
				} else {
					f.T.Status(ctx, c)
				}
			}
			shutdown = func() { f.T.Shutdown(ctx) }
		}
		var workers []func()
		for u := 0; u < users; u++ {
			workers = append(workers, func() {
				for i := 0; i < 60; i++ {
					use(i)
					atomic.AddInt64(&opCount, 1)
					yield(i)
				}
			})
		}
		workers = append(workers, func() {
			for atomic.LoadInt64(&opCount) < int64(after) {
				runtime.Gosched()
			}
			shutdown()
		})
		runAll(t, "shutdown of "+comp, workers)
		if cleanup != nil {
			cleanup()
		}
		leg.Case(fmt.Sprintf("%s users=%d after=%d", comp, users, after), true, "component:"+comp)
	})
}

var _ = cid.Undef
var _ = sort.Strings

// neverReady is a consensus component that never reports ready.
type neverReady struct{ *fakes.Consensus }

func (n *neverReady) Ready(context.Context) <-chan struct{} { return make(chan struct{}) }

// Regression: a peer whose consensus did not become ready within
// ReadyTimeout shuts itself down; that Shutdown was called from the very
// goroutine it waits for and never returned (fixed in /repo).
func TestRegressShutdownAfterReadyTimeout(t *testing.T) {
	old := ipfscluster.ReadyTimeout
	ipfscluster.ReadyTimeout = 300 * time.Millisecond
	defer func() { ipfscluster.ReadyTimeout = old }()
	shared := fakes.NewSharedState()
	f := fakes.NewClusterNoWait(fakes.ClusterOpts{Key: gen.PeerKeys[6], Shared: shared, Consensus: &neverReady{fakes.NewConsensus(shared, gen.Peers[6])}})
	select {
	case <-f.C.Done():
	case <-time.After(20 * time.Second):
		t.Fatalf("a peer that could not become ready within ReadyTimeout did not finish shutting itself down within 20 s")
	}
	done := make(chan struct{})
	go func() { f.C.Shutdown(ctx); close(done) }()
	select {
	case <-done:
	case <-time.After(20 * time.Second):
		t.Fatalf("Shutdown() on that peer does not return")
	}
	f.Host.Close()
}
