// Package c07: untrusted peers cannot alter the pinset, drive IPFS or read
// closed endpoints.
package c07

import (
	"context"
	"encoding/json"
	"fmt"
	"io/ioutil"
	"os"
	"reflect"
	"sort"
	"strings"
	"sync/atomic"
	"testing"
	"time"

	"verifharness/internal/ev"
	"verifharness/internal/fakes"
	"verifharness/internal/gen"

	ds "github.com/ipfs/go-datastore"
	dssync "github.com/ipfs/go-datastore/sync"
	ipfscluster "github.com/ipfs/ipfs-cluster"
	"github.com/ipfs/ipfs-cluster/api"
	"github.com/ipfs/ipfs-cluster/config"
	"github.com/ipfs/ipfs-cluster/consensus/crdt"
	"github.com/ipfs/ipfs-cluster/consensus/raft"
	"github.com/ipfs/ipfs-cluster/version"
	libp2p "github.com/libp2p/go-libp2p"
	host "github.com/libp2p/go-libp2p-core/host"
	peer "github.com/libp2p/go-libp2p-core/peer"
	rpc "github.com/libp2p/go-libp2p-gorpc"
	pubsub "github.com/libp2p/go-libp2p-pubsub"
	routinghelpers "github.com/libp2p/go-libp2p-routing-helpers"
	ma "github.com/multiformats/go-multiaddr"
	"pgregory.net/rapid"
)

// The frozen endpoint table, written from the statement and the comments of
// rpc_policy.go at the pinned commit.
var open = set("Cluster.ID", "Cluster.Version", "Cluster.PeerAdd")
var trusted = set("Cluster.PeerRemove", "Cluster.Peers", "Cluster.RecoverAllLocal", "Cluster.RecoverLocal", "Cluster.RepoGCLocal",
	"PinTracker.Recover", "PinTracker.Status", "PinTracker.StatusAll", "IPFSConnector.BlockPut", "IPFSConnector.RepoStat", "IPFSConnector.SwarmPeers",
	"Consensus.AddPeer", "Consensus.LogPin", "Consensus.LogUnpin", "Consensus.RmPeer")
var local = set("Cluster.BlockAllocate", "Cluster.ConnectGraph", "Cluster.Join", "Cluster.Pin", "Cluster.PinGet", "Cluster.PinPath", "Cluster.Pins", "Cluster.Recover",
	"Cluster.RecoverAll", "Cluster.RepoGC", "Cluster.SendInformerMetric", "Cluster.SendInformersMetrics", "Cluster.Alerts", "Cluster.Status", "Cluster.StatusAll",
	"Cluster.StatusAllLocal", "Cluster.StatusLocal", "Cluster.Unpin", "Cluster.UnpinPath", "PinTracker.RecoverAll", "PinTracker.Track", "PinTracker.Untrack",
	"IPFSConnector.BlockGet", "IPFSConnector.ConfigKey", "IPFSConnector.Pin", "IPFSConnector.PinLs", "IPFSConnector.PinLsCid", "IPFSConnector.Resolve", "IPFSConnector.Unpin",
	"Consensus.Peers", "PeerMonitor.LatestMetrics", "PeerMonitor.MetricNames")

func set(s ...string) map[string]bool {
	m := map[string]bool{}
	for _, x := range s {
		m[x] = true
	}
	return m
}

type endpoint struct {
	svc, method string
	argKind     reflect.Kind
}

// endpoints are discovered by reflection so that a new one is picked up.
func endpoints() []endpoint {
	var out []endpoint
	for _, c := range []interface{}{&ipfscluster.ClusterRPCAPI{}, &ipfscluster.PinTrackerRPCAPI{}, &ipfscluster.IPFSConnectorRPCAPI{}, &ipfscluster.ConsensusRPCAPI{}, &ipfscluster.PeerMonitorRPCAPI{}} {
		t := reflect.TypeOf(c)
		svc := ipfscluster.RPCServiceID(c)
		for i := 0; i < t.NumMethod(); i++ {
			m := t.Method(i)
			if m.Type.NumIn() != 4 {
				continue
			}
			at := m.Type.In(2)
			k := at.Kind()
			if k == reflect.Ptr {
				k = at.Elem().Kind()
			}
			out = append(out, endpoint{svc, m.Name, k})
		}
	}
	sort.Slice(out, func(i, j int) bool { return out[i].svc+out[i].method < out[j].svc+out[j].method })
	return out
}

// badArg returns an argument that cannot be decoded into the endpoint's
// argument type: authorisation is decided before the argument is decoded, so
// an authorised call ends in a decoding error without running the handler.
func badArg(e endpoint) interface{} {
	switch e.argKind {
	case reflect.Struct, reflect.Map, reflect.Slice:
		if e.svc+"."+e.method == "Cluster.PinGet" || strings.HasSuffix(e.method, "Local") || e.argKind == reflect.Struct {
			return "not-a-struct"
		}
		return "x"
	default:
		return map[string]int{"a": 1}
	}
}

var (
	trustForm string       // how the last target's trusted_peers was written
	callers   [2]host.Host // B, C
	workdir   string
	caseN     int64
)

func TestMain(m *testing.M) {
	for i := range callers {
		callers[i] = fakes.NewHost(gen.PeerKeys[5+i], true)
	}
	workdir, _ = ioutil.TempDir(os.Getenv("VERIF_WORKDIR"), "c07-")
	code := m.Run()
	os.RemoveAll(workdir)
	ev.Flush()
	os.Exit(code)
}

type target struct {
	f      *fakes.ClusterFixture
	cons   ipfscluster.Consensus
	closer func()
}

func newTarget(t *rapid.T, mode string, listed []peer.ID) *target {
	ctx := context.Background()
	h, err := libp2p.New(ctx, libp2p.Identity(gen.PeerKeys[0]), libp2p.ListenAddrStrings("/ip4/127.0.0.1/tcp/0"))
	if err != nil {
		t.Fatal(err)
	}
	var cons ipfscluster.Consensus
	switch mode {
	case "raft":
		cfg := &raft.Config{}
		cfg.Default()
		cfg.DataFolder, _ = ioutil.TempDir(workdir, "raft-")
		cfg.RaftConfig.HeartbeatTimeout = 100 * time.Millisecond
		cfg.RaftConfig.ElectionTimeout = 100 * time.Millisecond
		cfg.RaftConfig.LeaderLeaseTimeout = 80 * time.Millisecond
		cfg.RaftConfig.CommitTimeout = 20 * time.Millisecond
		rc, err := raft.NewConsensus(h, cfg, dssync.MutexWrap(ds.NewMapDatastore()), false)
		if err != nil {
			t.Fatalf("raft: %v", err)
		}
		cons = rc
	default:
		psub, err := pubsub.NewGossipSub(ctx, h, pubsub.WithMessageSigning(true), pubsub.WithStrictSignatureVerification(true))
		if err != nil {
			t.Fatal(err)
		}
		// the trust configuration arrives the way it does in a deployment:
		// as the crdt section of the configuration file, with the list
		// written in one of the forms the file format allows
		jm := map[string]interface{}{"cluster_name": fmt.Sprintf("verif-c07-%d-%d", os.Getpid(), atomic.AddInt64(&caseN, 1))}
		var ids []interface{}
		for _, p := range listed {
			ids = append(ids, peer.Encode(p))
		}
		form := "list"
		switch mode {
		case "crdt-trustall":
			form = rapid.SampledFrom([]string{"star", "star-and-ids"}).Draw(t, "trustForm")
			if form == "star" {
				jm["trusted_peers"] = []interface{}{"*"}
			} else {
				jm["trusted_peers"] = append([]interface{}{peer.Encode(gen.Peers[9])}, "*")
			}
		case "crdt-empty":
			form = rapid.SampledFrom([]string{"absent", "null", "empty"}).Draw(t, "trustForm")
			switch form {
			case "null":
				jm["trusted_peers"] = nil
			case "empty":
				jm["trusted_peers"] = []interface{}{}
			}
		default:
			jm["trusted_peers"] = ids
		}
		jb, _ := json.Marshal(jm)
		cfg := &crdt.Config{}
		if err := cfg.LoadJSON(jb); err != nil {
			t.Fatalf("crdt section %s does not load: %v", jb, err)
		}
		// the daemon applies the environment on top of the loaded file
		// (nothing is set in it here)
		if err := cfg.ApplyEnvVars(); err != nil {
			t.Fatalf("crdt section %s: ApplyEnvVars: %v", jb, err)
		}
		trustForm = form
		cc, err := crdt.New(h, routinghelpers.Null{}, psub, cfg, dssync.MutexWrap(ds.NewMapDatastore()))
		if err != nil {
			t.Fatalf("crdt: %v", err)
		}
		cons = cc
	}
	// request tracing switches the RPC server to another constructor path
	tracing := rapid.Bool().Draw(t, "tracing")
	f := fakes.NewCluster(fakes.ClusterOpts{Host: h, Consensus: cons, Mutate: func(c *ipfscluster.Config) { c.Tracing = tracing }})
	return &target{f: f, cons: cons, closer: func() { f.Close() }}
}

func isAuthErr(err error) bool { return err != nil && rpc.IsAuthorizationError(err) }

const rule = "case = request tracing on/off x consensus mode (Raft single member; CRDT with explicit trusted list, empty list, trust-all; loaded from the JSON section with trusted_peers written as a list, '*', '*' among IDs, [], null or absent) x which of the two remote callers is listed x a sequence of 0-4 Trust/Distrust calls, Distrust of the listed peer before it ever connected, and join handshakes (the caller has the target PeerAdd the caller's own ID through the open endpoint); after every step every RPC endpoint registered by the peer (found by reflection) is called by both remote callers over real libp2p connections with an undecodable argument, so the error class shows the authorisation decision without running the handler (the finite endpoint x caller matrix is exhaustive per step); oracle = frozen table OPEN / TRUSTED / LOCAL: an allowed call implies the endpoint is OPEN, or TRUSTED and the caller is trusted by the model; endpoints missing from the table must be refused to untrusted callers; non-trivial = a caller's trust differs from the initial configuration at some step; distinct by mode + listing + history"

func TestRPCPolicy(t *testing.T) {
	leg := ev.L("rpc-policy", rule)
	eps := endpoints()
	rapid.Check(t, func(t *rapid.T) {
		mode := rapid.SampledFrom([]string{"raft", "crdt-list", "crdt-list", "crdt-empty", "crdt-trustall"}).Draw(t, "mode")
		listedIdx := -1
		var listed []peer.ID
		if mode == "crdt-list" {
			listedIdx = rapid.IntRange(0, 1).Draw(t, "listed")
			listed = []peer.ID{callers[listedIdx].ID()}
		}
		tg := newTarget(t, mode, listed)
		defer tg.closer()
		a := tg.f.Host
		clients := make([]*rpc.Client, 2)
		for i, h := range callers {
			h.Peerstore().AddAddrs(a.ID(), a.Addrs(), time.Hour)
			ctx, cancel := context.WithTimeout(context.Background(), 5*time.Second)
			if err := h.Connect(ctx, peer.AddrInfo{ID: a.ID(), Addrs: a.Addrs()}); err != nil {
				cancel()
				t.Fatalf("VERIF-INFRA connect: %v", err)
			}
			cancel()
			clients[i] = rpc.NewClient(h, version.RPCProtocol)
		}
		defer func() {
			for _, h := range callers {
				h.Network().ClosePeer(a.ID())
			}
		}()
		model := [2]bool{}
		for i := range model {
			model[i] = mode == "raft" || mode == "crdt-trustall" || i == listedIdx
		}
		initial := model
		history := []string{fmt.Sprintf("%s listed=%d", mode, listedIdx)}
		nontrivial := false
		allowedTrusted, refused := 0, 0
		transportRetries, undecided := 0, 0
		matrix := func() {
			for ci, cl := range clients {
				for _, e := range eps {
					name := e.svc + "." + e.method
					var err error
					for try := 0; try < 6; try++ {
						ctx, cancel := context.WithTimeout(context.Background(), 10*time.Second)
						var reply struct{}
						err = cl.CallContext(ctx, a.ID(), e.svc, e.method, badArg(e), &reply)
						cancel()
						// a client-side error (the stream was reset before the
						// response could be read: the server closes a refused
						// stream while the argument is still in flight) says
						// nothing about the decision: ask again
						if err == nil || !rpc.IsClientError(err) || strings.Contains(err.Error(), "deadline") {
							break
						}
						transportRetries++
					}
					if err != nil && rpc.IsClientError(err) && !strings.Contains(err.Error(), "deadline") {
						undecided++
						continue
					}
					allowed := !isAuthErr(err)
					if err != nil && !allowed {
						refused++
					}
					if allowed && err != nil && strings.Contains(err.Error(), "deadline") {
						t.Fatalf("VERIF-INFRA: call to %s timed out: %v", name, err)
					}
					switch {
					case open[name]:
						// anybody may call it
					case trusted[name]:
						if allowed && !model[ci] {
							t.Fatalf("endpoint %s was allowed to caller %d, which is not trusted (history: %v)", name, ci, history)
						}
						if allowed {
							allowedTrusted++
						}
					case local[name]:
						if allowed {
							t.Fatalf("endpoint %s is for local use only but a remote caller (trusted=%v) was allowed (err: %v; history: %v)", name, model[ci], err, history)
						}
					default:
						if allowed && !model[ci] {
							t.Fatalf("endpoint %s (not in the harness table) was allowed to an untrusted caller (history: %v)", name, history)
						}
					}
				}
			}
		}
		if mode == "crdt-list" && rapid.IntRange(0, 2).Draw(t, "earlyDistrust") == 0 {
			// the listed peer is distrusted before it has ever connected: the
			// target knows no address of it at this point
			// (make sure of it: a connection left over from the previous case
			// may have come back by itself)
			a.Network().ClosePeer(callers[listedIdx].ID())
			a.Peerstore().ClearAddrs(callers[listedIdx].ID())
			if err := tg.cons.Distrust(context.Background(), callers[listedIdx].ID()); err != nil {
				t.Fatalf("Distrust: %v", err)
			}
			model[listedIdx] = false
			history = append(history, fmt.Sprintf("distrust(%d) before it ever connected", listedIdx))
			nontrivial = true
		}
		matrix()
		steps := rapid.IntRange(0, 4).Draw(t, "steps")
		for s := 0; s < steps; s++ {
			ci := rapid.IntRange(0, 1).Draw(t, "who")
			if mode != "raft" && rapid.IntRange(0, 3).Draw(t, "handshake") == 0 {
				// the join handshake: the caller asks the target (an open
				// endpoint) to add the caller's own ID, as Join / --bootstrap
				// does. That must not make it trusted.
				var out api.ID
				ctx, cancel := context.WithTimeout(context.Background(), 20*time.Second)
				err := clients[ci].CallContext(ctx, a.ID(), "Cluster", "PeerAdd", callers[ci].ID(), &out)
				cancel()
				history = append(history, fmt.Sprintf("peerAdd(self) by %d (err=%v)", ci, err != nil))
				nontrivial = true
				matrix()
				continue
			}
			trust := rapid.Bool().Draw(t, "trust")
			if trust {
				if err := tg.cons.Trust(context.Background(), callers[ci].ID()); err != nil {
					t.Fatalf("Trust: %v", err)
				}
			} else {
				if err := tg.cons.Distrust(context.Background(), callers[ci].ID()); err != nil {
					t.Fatalf("Distrust: %v", err)
				}
			}
			if mode == "crdt-list" || mode == "crdt-empty" {
				model[ci] = trust
			}
			history = append(history, fmt.Sprintf("trust(%d)=%v", ci, trust))
			if model != initial {
				nontrivial = true
			}
			matrix()
		}
		// the local caller is never refused
		var id api.ID
		if err := tg.f.API.RPC().CallContext(context.Background(), "", "Cluster", "ID", struct{}{}, &id); err != nil {
			t.Fatalf("local call refused: %v", err)
		}
		var pins []*api.Pin
		if err := tg.f.API.RPC().CallContext(context.Background(), "", "Cluster", "Pins", struct{}{}, &pins); isAuthErr(err) {
			t.Fatalf("local call to a closed endpoint refused: %v", err)
		}
		leg.Class("allowed-trusted-calls", int64(allowedTrusted))
		leg.Class("refused-calls", int64(refused))
		leg.Class("calls-repeated-after-transport-error", int64(transportRetries))
		leg.Class("calls-left-undecided-by-transport-errors", int64(undecided))
		leg.Case(strings.Join(history, " ; "), nontrivial, "mode:"+mode)
	})
}

func pinsOf(r *fakes.CRDTReplica) map[string]bool {
	out := map[string]bool{}
	st, err := r.Cons.State(context.Background())
	if err != nil {
		return out
	}
	pins, _ := st.List(context.Background())
	for _, p := range pins {
		out[p.Cid.String()] = true
	}
	return out
}

func waitPin(r *fakes.CRDTReplica, c string, d time.Duration) bool {
	deadline := time.Now().Add(d)
	for time.Now().Before(deadline) {
		if pinsOf(r)[c] {
			return true
		}
		time.Sleep(20 * time.Millisecond)
	}
	return false
}

const rulePubsub = "three real CRDT replicas A, B, T on loopback with signed gossipsub: B trusts a generated subset of {A, T} (T always, as the liveness witness), A and T publish generated pins while all are connected; when T's marker pin is visible on B, none of the pins published by an untrusted A may be in B's pinset; after B.Trust(A) a new publication from A must arrive (and everything A published before, through the DAG); with trust-all on B everything arrives; non-trivial = A untrusted at first and published >= 1 pin; distinct by configuration"

const ruleRelay = "three real CRDT replicas in a chain U - T - X (U and X cannot connect): T trusts U and X, X trusts only T, T neither publishes nor rebroadcasts during the observation; U publishes 1-3 pins, which gossipsub relays through T; once T shows them (the relay happened) and a further 1.5 s passed, X must hold none of them: an update signed by a peer X does not trust must not alter X's pinset no matter who delivered it; afterwards T publishes a marker and X must receive it (the path works); non-trivial = always; distinct by parameters"

func TestPubsubRelay(t *testing.T) {
	leg := ev.L("pubsub-relay", ruleRelay)
	rapid.Check(t, func(t *rapid.T) {
		name := fmt.Sprintf("verif-c07r-%d-%d", os.Getpid(), atomic.AddInt64(&caseN, 1))
		ku, kt, kx := gen.PeerKeys[1], gen.PeerKeys[3], gen.PeerKeys[2]
		U := fakes.NewCRDTReplica(ku, func(c *crdt.Config) { c.ClusterName = name; c.TrustAll = true })
		defer U.Close()
		T := fakes.NewCRDTReplica(kt, func(c *crdt.Config) {
			c.ClusterName = name
			c.TrustedPeers = []peer.ID{gen.Peers[1], gen.Peers[2]}
			c.RebroadcastInterval = time.Hour
		})
		defer T.Close()
		X := fakes.NewCRDTReplica(kx, func(c *crdt.Config) { c.ClusterName = name; c.TrustedPeers = []peer.ID{gen.Peers[3]} })
		defer X.Close()
		U.Partition(X)
		if err := U.Connect(T); err != nil {
			t.Fatalf("VERIF-INFRA connect: %v", err)
		}
		if err := T.Connect(X); err != nil {
			t.Fatalf("VERIF-INFRA connect: %v", err)
		}
		time.Sleep(500 * time.Millisecond) // let gossipsub build the mesh
		n := rapid.IntRange(1, 3).Draw(t, "n")
		ctx := context.Background()
		var fromU []string
		for i := 0; i < n; i++ {
			if err := U.Cons.LogPin(ctx, api.PinCid(gen.Cids[i])); err != nil {
				t.Fatalf("U.LogPin: %v", err)
			}
			fromU = append(fromU, gen.Cids[i].String())
		}
		for _, c := range fromU {
			if !waitPin(T, c, 30*time.Second) {
				leg.Inconclusive("U's pins did not reach T within 30 s")
				t.Skip("inconclusive")
			}
		}
		time.Sleep(1500 * time.Millisecond)
		got := pinsOf(X)
		for _, c := range fromU {
			if got[c] {
				t.Fatalf("X trusts only T; the update %s signed by U (untrusted by X) was relayed by T and X applied it", c)
			}
		}
		marker := api.PinCid(gen.Cids[7])
		if err := T.Cons.LogPin(ctx, marker); err != nil {
			t.Fatalf("T.LogPin: %v", err)
		}
		if !waitPin(X, marker.Cid.String(), 30*time.Second) {
			leg.Inconclusive("T's marker did not reach X within 30 s")
			t.Skip("inconclusive")
		}
		leg.Case(fmt.Sprintf("n=%d", n), true)
	})
}

const ruleForged = "a victim replica built on the host and pubsub instance of the real ipfscluster.NewClusterHost, trusting only peer T; an attacker in the same swarm runs its own replica over a pubsub instance that does not sign and labels its messages with T's peer ID; the attacker publishes 1-3 pins; after a 2 s observation the victim must hold none of them (an update that is not signed by a trusted peer must not alter the pinset); then a trusted, correctly signing replica T' (listed by the victim) publishes a marker that must arrive (the path works); non-trivial = always; distinct by parameters"

func TestPubsubForgedAuthor(t *testing.T) {
	leg := ev.L("pubsub-forged-author", ruleForged)
	rapid.Check(t, func(t *rapid.T) {
		ctx := context.Background()
		name := fmt.Sprintf("verif-c07f-%d-%d", os.Getpid(), atomic.AddInt64(&caseN, 1))
		// victim: the cluster's own host and pubsub construction
		ccfg := &ipfscluster.Config{}
		ccfg.Default()
		la, _ := ma.NewMultiaddr("/ip4/127.0.0.1/tcp/0")
		ccfg.ListenAddr = []ma.Multiaddr{la}
		ccfg.Secret = nil
		ident := &config.Identity{ID: gen.Peers[2], PrivateKey: gen.PeerKeys[2]}
		vh, vps, vdht, err := ipfscluster.NewClusterHost(ctx, ident, ccfg, dssync.MutexWrap(ds.NewMapDatastore()))
		if err != nil {
			t.Fatalf("VERIF-INFRA NewClusterHost: %v", err)
		}
		defer vh.Close()
		defer vdht.Close()
		trusted := gen.Peers[3] // T, whose name the attacker uses; also a real replica below
		V := fakes.NewCRDTReplicaOn(vh, vps, func(c *crdt.Config) { c.ClusterName = name; c.TrustedPeers = []peer.ID{trusted} })
		defer V.Cons.Shutdown(ctx)
		// attacker: unsigned messages carrying T's ID as author
		ah, err := libp2p.New(ctx, libp2p.Identity(gen.PeerKeys[1]), libp2p.ListenAddrStrings("/ip4/127.0.0.1/tcp/0"))
		if err != nil {
			t.Fatal(err)
		}
		defer ah.Close()
		aps, err := pubsub.NewGossipSub(ctx, ah, pubsub.WithMessageSignaturePolicy(pubsub.LaxNoSign), pubsub.WithMessageAuthor(trusted))
		if err != nil {
			t.Fatalf("VERIF-INFRA attacker pubsub: %v", err)
		}
		A := fakes.NewCRDTReplicaOn(ah, aps, func(c *crdt.Config) { c.ClusterName = name; c.TrustAll = true })
		defer A.Cons.Shutdown(ctx)
		// the genuine T
		T := fakes.NewCRDTReplica(gen.PeerKeys[3], func(c *crdt.Config) { c.ClusterName = name; c.TrustAll = true })
		defer T.Close()
		if err := ah.Connect(ctx, peer.AddrInfo{ID: vh.ID(), Addrs: vh.Addrs()}); err != nil {
			t.Fatalf("VERIF-INFRA connect: %v", err)
		}
		if err := T.H.Connect(ctx, peer.AddrInfo{ID: vh.ID(), Addrs: vh.Addrs()}); err != nil {
			t.Fatalf("VERIF-INFRA connect: %v", err)
		}
		time.Sleep(500 * time.Millisecond)
		n := rapid.IntRange(1, 3).Draw(t, "n")
		var forged []string
		for i := 0; i < n; i++ {
			if err := A.Cons.LogPin(ctx, api.PinCid(gen.Cids[i])); err != nil {
				t.Fatalf("attacker LogPin: %v", err)
			}
			forged = append(forged, gen.Cids[i].String())
		}
		time.Sleep(2 * time.Second)
		got := pinsOf(V)
		for _, c := range forged {
			if got[c] {
				t.Fatalf("the victim trusts only %s; an unsigned update carrying that ID as author, published by another peer, altered its pinset (%s)", trusted, c)
			}
		}
		marker := api.PinCid(gen.Cids[7])
		if err := T.Cons.LogPin(ctx, marker); err != nil {
			t.Fatalf("T.LogPin: %v", err)
		}
		if !waitPin(V, marker.Cid.String(), 30*time.Second) {
			leg.Inconclusive("the trusted peer's marker did not reach the victim within 30 s")
			t.Skip("inconclusive")
		}
		leg.Case(fmt.Sprintf("n=%d", n), true)
	})
}

const ruleRelayTrusted = "three real CRDT replicas in a chain C - B - A (A and C cannot connect): A trusts C but not B, B trusts everybody (so it relays); C publishes 1-3 pins; they must arrive at A (trust is about who signed an update, not about which neighbour delivered it) within 30 s; B's own marker, published afterwards, must not arrive at A within 1.5 s; non-trivial = always; distinct by parameters"

func TestPubsubRelayTrustedSigner(t *testing.T) {
	leg := ev.L("pubsub-relay-trusted-signer", ruleRelayTrusted)
	rapid.Check(t, func(t *rapid.T) {
		name := fmt.Sprintf("verif-c07s-%d-%d", os.Getpid(), atomic.AddInt64(&caseN, 1))
		C := fakes.NewCRDTReplica(gen.PeerKeys[1], func(c *crdt.Config) { c.ClusterName = name; c.TrustAll = true; c.RebroadcastInterval = time.Hour })
		defer C.Close()
		B := fakes.NewCRDTReplica(gen.PeerKeys[3], func(c *crdt.Config) { c.ClusterName = name; c.TrustAll = true; c.RebroadcastInterval = time.Hour })
		defer B.Close()
		A := fakes.NewCRDTReplica(gen.PeerKeys[2], func(c *crdt.Config) { c.ClusterName = name; c.TrustedPeers = []peer.ID{gen.Peers[1]} })
		defer A.Close()
		C.Partition(A)
		if err := C.Connect(B); err != nil {
			t.Fatalf("VERIF-INFRA connect: %v", err)
		}
		if err := B.Connect(A); err != nil {
			t.Fatalf("VERIF-INFRA connect: %v", err)
		}
		time.Sleep(500 * time.Millisecond)
		n := rapid.IntRange(1, 3).Draw(t, "n")
		ctx := context.Background()
		for i := 0; i < n; i++ {
			if err := C.Cons.LogPin(ctx, api.PinCid(gen.Cids[i])); err != nil {
				t.Fatalf("C.LogPin: %v", err)
			}
		}
		for i := 0; i < n; i++ {
			if !waitPin(B, gen.Cids[i].String(), 30*time.Second) {
				leg.Inconclusive("C's pins did not reach the relay within 30 s")
				t.Skip("inconclusive")
			}
		}
		for i := 0; i < n; i++ {
			if !waitPin(A, gen.Cids[i].String(), 30*time.Second) {
				t.Fatalf("A trusts C; C's update %s reached the relay B (which A does not trust) but never A: an update signed by a trusted peer was dropped because of who delivered it", gen.Cids[i])
			}
		}
		marker := api.PinCid(gen.Cids[7])
		if err := B.Cons.LogPin(ctx, marker); err != nil {
			t.Fatalf("B.LogPin: %v", err)
		}
		time.Sleep(1500 * time.Millisecond)
		if pinsOf(A)[marker.Cid.String()] {
			t.Fatalf("A does not trust B, yet B's own update is in A's pinset")
		}
		leg.Case(fmt.Sprintf("n=%d", n), true)
	})
}

func TestPubsubTrust(t *testing.T) {
	leg := ev.L("pubsub-trust", rulePubsub)
	rapid.Check(t, func(t *rapid.T) {
		name := fmt.Sprintf("verif-c07p-%d-%d", os.Getpid(), atomic.AddInt64(&caseN, 1))
		bMode := rapid.SampledFrom([]string{"trust-T", "trust-T", "trust-both", "trust-all"}).Draw(t, "bmode")
		ka, kb, kt := gen.PeerKeys[1], gen.PeerKeys[2], gen.PeerKeys[3]
		A := fakes.NewCRDTReplica(ka, func(c *crdt.Config) { c.ClusterName = name; c.TrustAll = true })
		defer A.Close()
		T := fakes.NewCRDTReplica(kt, func(c *crdt.Config) { c.ClusterName = name; c.TrustedPeers = []peer.ID{gen.Peers[2]} })
		defer T.Close()
		B := fakes.NewCRDTReplica(kb, func(c *crdt.Config) {
			c.ClusterName = name
			switch bMode {
			case "trust-T":
				c.TrustedPeers = []peer.ID{gen.Peers[3]}
			case "trust-both":
				c.TrustedPeers = []peer.ID{gen.Peers[3], gen.Peers[1]}
			case "trust-all":
				c.TrustAll = true
			}
		})
		defer B.Close()
		for _, pair := range [][2]*fakes.CRDTReplica{{A, B}, {T, B}, {A, T}} {
			if err := pair[0].Connect(pair[1]); err != nil {
				t.Fatalf("VERIF-INFRA connect: %v", err)
			}
		}
		time.Sleep(300 * time.Millisecond) // let gossipsub learn the subscriptions
		nA := rapid.IntRange(1, 3).Draw(t, "nA")
		ctx := context.Background()
		var fromA []string
		for i := 0; i < nA; i++ {
			p := api.PinCid(gen.Cids[i])
			if err := A.Cons.LogPin(ctx, p); err != nil {
				t.Fatalf("A.LogPin: %v", err)
			}
			fromA = append(fromA, gen.Cids[i].String())
		}
		marker := api.PinCid(gen.Cids[7])
		if err := T.Cons.LogPin(ctx, marker); err != nil {
			t.Fatalf("T.LogPin: %v", err)
		}
		if !waitPin(B, marker.Cid.String(), 30*time.Second) {
			leg.Inconclusive("T's marker did not reach B within 30 s")
			t.Skip("inconclusive")
		}
		// A and T are connected and trust everybody: T re-publishes heads that
		// include A's deltas, signed by T. What B must ignore is what A *signs*.
		// T's DAG may reference A's blocks, so A's pins can legitimately arrive
		// through T. To keep the oracle exact, T does not trust A either.
		aTrusted := bMode != "trust-T"
		got := pinsOf(B)
		if !aTrusted {
			for _, c := range fromA {
				if got[c] {
					t.Fatalf("B does not trust A, yet A's pin %s is in B's pinset (B trusts: %s)", c, bMode)
				}
			}
			if err := B.Cons.Trust(ctx, A.H.ID()); err != nil {
				t.Fatal(err)
			}
			p := api.PinCid(gen.Cids[8])
			if err := A.Cons.LogPin(ctx, p); err != nil {
				t.Fatal(err)
			}
			fromA = append(fromA, p.Cid.String())
		}
		for _, c := range fromA {
			if !waitPin(B, c, 30*time.Second) {
				t.Fatalf("B trusts A (%s) but A's pin %s did not arrive within 30 s although T's marker did", bMode, c)
			}
		}
		leg.Case(fmt.Sprintf("%s nA=%d", bMode, nA), !aTrusted, "bmode:"+bMode)
	})
}
