package c16

import (
	"context"
	"testing"

	"verifharness/internal/gen"

	"github.com/ipfs/ipfs-cluster/api"
)

func TestRegressTrailerError(t *testing.T) {
	setup()
	dm.mu.Lock()
	dm.table = map[string]string{}
	dm.behave = map[string]string{"pin/add": "progress-trailer-error"}
	dm.mu.Unlock()
	err := conn.Pin(context.Background(), api.PinCid(gen.Cids[0]))
	dm.mu.Lock()
	held := dm.table[gen.Cids[0].String()]
	dm.behave = map[string]string{}
	dm.mu.Unlock()
	if err == nil && held == "" {
		t.Fatal("Pin reported success although ipfs reported an error in the X-Stream-Error trailer and does not hold the pin")
	}
}
