// Package c16: the IPFS connector reports success only when the daemon
// reached the asked state.
package c16

import (
	"context"
	"encoding/json"
	"fmt"
	"net"
	"net/http"
	"net/http/httptest"
	"os"
	"sort"
	"strings"
	"sync"
	"testing"
	"time"

	"verifharness/internal/ev"
	"verifharness/internal/gen"
	"verifharness/internal/kf"

	cid "github.com/ipfs/go-cid"
	"github.com/ipfs/ipfs-cluster/api"
	"github.com/ipfs/ipfs-cluster/ipfsconn/ipfshttp"
	rpc "github.com/libp2p/go-libp2p-gorpc"
	ma "github.com/multiformats/go-multiaddr"
	"pgregory.net/rapid"
)

func TestMain(m *testing.M) {
	code := m.Run()
	ev.Flush()
	os.Exit(code)
}

// KFTrailer: errors reported by go-ipfs after the first progress line (as an
// X-Stream-Error trailer) are ignored by the connector.
const KFTrailer = "C16-pin-progress-ignores-stream-error-trailer"

const pinTimeout = 150 * time.Millisecond

// fake go-ipfs daemon
type daemon struct {
	mu       sync.Mutex
	table    map[string]string // cid -> "recursive" | "direct" | "indirect"
	requests []string
	behave   map[string]string // endpoint -> behaviour
	capHit   bool              // a repeat-stall was not given up on within 40 pin timeouts
	stuck    string            // endpoint whose silent request was still open after 40 pin timeouts
	srv      *httptest.Server
	badUnpin bool // pin/update called without unpin=false
}

func ipfsErr(w http.ResponseWriter, msg string) {
	w.Header().Set("Content-Type", "application/json")
	w.WriteHeader(500)
	json.NewEncoder(w).Encode(map[string]interface{}{"Message": msg, "Code": 0, "Type": "error"})
}

func drop(w http.ResponseWriter) {
	hj, ok := w.(http.Hijacker)
	if !ok {
		return
	}
	c, _, err := hj.Hijack()
	if err == nil {
		c.Close()
	}
}

// waitAbort answers nothing until the client gives the request up; after 40
// pin timeouts it records that nobody did and drops the connection.
func (d *daemon) waitAbort(w http.ResponseWriter, r *http.Request, ep string) {
	select {
	case <-r.Context().Done():
	case <-time.After(40 * pinTimeout):
		d.mu.Lock()
		d.stuck = ep
		d.mu.Unlock()
		drop(w)
	}
}

func (d *daemon) handler(w http.ResponseWriter, r *http.Request) {
	ep := strings.TrimPrefix(r.URL.Path, "/api/v0/")
	q := r.URL.Query()
	d.mu.Lock()
	d.requests = append(d.requests, ep+"?"+r.URL.RawQuery)
	b := d.behave[ep]
	d.mu.Unlock()
	switch b {
	case "error500":
		ipfsErr(w, "some internal ipfs error")
		return
	case "nonjson":
		w.WriteHeader(502)
		w.Write([]byte("<html>Bad Gateway</html>"))
		return
	case "drop":
		drop(w)
		return
	case "hang":
		d.waitAbort(w, r, ep)
		return
	case "cut":
		// the answer starts (200, headers, the beginning of a JSON object)
		// and the connection dies in the middle of the body
		w.Header().Set("Content-Type", "application/json")
		w.Header().Set("Content-Length", "4096")
		w.WriteHeader(200)
		w.Write([]byte(`{"Keys":{"`))
		if fl, ok := w.(http.Flusher); ok {
			fl.Flush()
		}
		drop(w)
		return
	}
	args := q["arg"]
	switch ep {
	case "pin/ls":
		typ := q.Get("type")
		d.mu.Lock()
		defer d.mu.Unlock()
		keys := map[string]map[string]string{}
		if len(args) == 1 {
			have, ok := d.table[args[0]]
			if !ok || (typ != "all" && typ != "" && have != typ) {
				ipfsErr(w, fmt.Sprintf("path '%s' is not pinned", args[0]))
				return
			}
			t := have
			if have == "indirect" {
				t = "indirect through Qmfoo"
			}
			keys[args[0]] = map[string]string{"Type": t}
		} else {
			for k, v := range d.table {
				if typ == "all" || typ == "" || v == typ {
					keys[k] = map[string]string{"Type": v}
				}
			}
		}
		json.NewEncoder(w).Encode(map[string]interface{}{"Keys": keys})
	case "pin/add":
		d.pinAdd(w, r, args, q, b)
	case "pin/rm":
		d.mu.Lock()
		defer d.mu.Unlock()
		have, ok := d.table[args[0]]
		if !ok || have == "indirect" {
			ipfsErr(w, "not pinned or pinned indirectly")
			return
		}
		delete(d.table, args[0])
		json.NewEncoder(w).Encode(map[string]interface{}{"Pins": []string{args[0]}})
	case "pin/update":
		d.mu.Lock()
		defer d.mu.Unlock()
		if len(args) != 2 {
			ipfsErr(w, "bad args")
			return
		}
		if d.table[args[0]] != "recursive" {
			ipfsErr(w, "'from' cid was not recursively pinned already")
			return
		}
		if q.Get("unpin") != "false" {
			d.badUnpin = true
			delete(d.table, args[0])
		}
		d.table[args[1]] = "recursive"
		json.NewEncoder(w).Encode(map[string]interface{}{"Pins": []string{args[0], args[1]}})
	case "swarm/connect":
		json.NewEncoder(w).Encode(map[string]interface{}{"Strings": []string{"connect success"}})
	default:
		w.Write([]byte("{}"))
	}
}

func (d *daemon) pinAdd(w http.ResponseWriter, r *http.Request, args []string, q map[string][]string, b string) {
	recursive := r.URL.Query().Get("recursive") != "false"
	fl, _ := w.(http.Flusher)
	w.Header().Set("Trailer", "X-Stream-Error")
	w.Header().Set("Content-Type", "application/json")
	progress := func(n int) {
		fmt.Fprintf(w, "{\"Progress\":%d}\n", n)
		if fl != nil {
			fl.Flush()
		}
	}
	commit := func() bool {
		d.mu.Lock()
		defer d.mu.Unlock()
		have := d.table[args[0]]
		if !recursive && have == "recursive" {
			return false
		}
		if recursive {
			d.table[args[0]] = "recursive"
		} else {
			d.table[args[0]] = "direct"
		}
		return true
	}
	switch b {
	case "stall":
		d.waitAbort(w, r, "pin/add")
		return
	case "progress-stall":
		progress(1)
		progress(2)
		d.waitAbort(w, r, "pin/add")
		return
	case "repeat-stall":
		// the daemon stays responsive but fetches nothing more: the same
		// progress figure is repeated, as go-ipfs does on every tick
		progress(1)
		progress(2)
		deadline := time.After(40 * pinTimeout)
		for {
			select {
			case <-r.Context().Done():
				return
			case <-deadline:
				d.mu.Lock()
				d.capHit = true
				d.mu.Unlock()
				drop(w)
				return
			case <-time.After(pinTimeout / 3):
				progress(2)
			}
		}
	case "progress-drop":
		progress(1)
		drop(w)
		return
	case "progress-trailer-error":
		progress(1)
		progress(2)
		w.Header().Set("X-Stream-Error", "pin: merkledag: not found")
		return
	case "slow-progress":
		for i := 1; i <= 6; i++ {
			progress(i)
			select {
			case <-time.After(pinTimeout / 3):
			case <-r.Context().Done():
				return
			}
		}
	default:
		progress(1)
	}
	d.mu.Lock()
	have := d.table[args[0]]
	d.mu.Unlock()
	if !recursive && have == "recursive" {
		// headers are already out: go-ipfs reports this one before streaming
		w.Header().Set("X-Stream-Error", "pin: "+args[0]+" already pinned recursively")
		return
	}
	if commit() {
		json.NewEncoder(w).Encode(map[string]interface{}{"Pins": []string{args[0]}})
	}
}

type clusterSvc struct{}

func (c *clusterSvc) SendInformersMetrics(ctx context.Context, in struct{}, out *[]*api.Metric) error {
	return nil
}
func (c *clusterSvc) Peers(ctx context.Context, in struct{}, out *[]*api.ID) error { return nil }

func newConnector(d *daemon) *ipfshttp.Connector {
	cfg := &ipfshttp.Config{}
	cfg.Default()
	host, port, _ := net.SplitHostPort(strings.TrimPrefix(d.srv.URL, "http://"))
	cfg.NodeAddr, _ = ma.NewMultiaddr(fmt.Sprintf("/ip4/%s/tcp/%s", host, port))
	cfg.PinTimeout = pinTimeout
	cfg.ConnectSwarmsDelay = time.Hour
	cfg.IPFSRequestTimeout = 5 * time.Second
	cfg.UnpinTimeout = 5 * time.Second
	c, err := ipfshttp.NewConnector(cfg)
	if err != nil {
		panic(err)
	}
	s := rpc.NewServer(nil, "verif")
	s.RegisterName("Cluster", &clusterSvc{})
	c.SetClient(rpc.NewClientWithServer(nil, "verif", s))
	return c
}

var (
	dm   *daemon
	conn *ipfshttp.Connector
	once sync.Once
)

func setup() {
	once.Do(func() {
		dm = &daemon{table: map[string]string{}, behave: map[string]string{}}
		dm.srv = httptest.NewServer(http.HandlerFunc(dm.handler))
		conn = newConnector(dm)
	})
}

func wantType(p *api.Pin) string {
	if p.MaxDepth == 0 {
		return "direct"
	}
	return "recursive"
}

const rule = "case = operation (Pin, Unpin, PinLsCid) x pin (recursive, direct, depth 2, depth 0 with the mode field left at recursive; 0-2 origins; optional update source) x prior daemon entry of the CID and of the update source (absent, direct, recursive, indirect) x behaviour of each daemon endpoint the operation talks to (ok, IPFS error body with 500, non-JSON 502, connection dropped before or in the middle of a 200 answer, and for pin/add: stall before any progress, progress then stall, progress then the same progress figure repeated forever, progress then connection drop, progress then X-Stream-Error trailer, slow but steady progress longer than the pin timeout) x optional caller cancellation (with it also: an endpoint that never answers, which the connector must abandon when the caller does); scripted go-ipfs fake with real status codes and message strings; non-trivial = a fault on a step after the first one, an update pin, or a mode conflict; distinct by canonical rendering"

func TestConnector(t *testing.T) {
	leg := ev.L("connector", rule)
	setup()
	rapid.Check(t, func(t *rapid.T) {
		c := gen.CidN(3).Draw(t, "cid")
		op := rapid.SampledFrom([]string{"pin", "pin", "pin", "unpin", "ls"}).Draw(t, "op")
		pin := api.PinCid(c)
		switch rapid.IntRange(0, 4).Draw(t, "mode") {
		case 0:
			pin.MaxDepth, pin.Mode = 0, api.PinModeDirect
		case 1:
			pin.MaxDepth = 2
		case 2:
			// depth 0 set by hand on a pin built with default options, the way
			// adder/sharding builds its cluster-DAG pin: the mode field still
			// says recursive, the depth is what the connector is documented
			// to go by
			pin.MaxDepth = 0
		}
		for i := rapid.IntRange(0, 2).Draw(t, "norigins"); i > 0; i-- {
			pin.Origins = append(pin.Origins, gen.Origin().Draw(t, "origin"))
		}
		var from cid.Cid
		// (no update source on the hand-made depth-0 pin: nothing builds that)
		if handMade := pin.MaxDepth == 0 && pin.Mode == api.PinModeRecursive; !handMade && rapid.IntRange(0, 2).Draw(t, "update") == 0 {
			from = gen.Cids[3+rapid.IntRange(0, 1).Draw(t, "from")]
			pin.PinUpdate = from
		}
		prior := rapid.SampledFrom([]string{"", "", "direct", "recursive", "indirect"}).Draw(t, "prior")
		priorFrom := rapid.SampledFrom([]string{"", "direct", "recursive", "recursive"}).Draw(t, "priorFrom")
		cancelAfter := time.Duration(0)
		if rapid.IntRange(0, 5).Draw(t, "cancel") == 0 {
			cancelAfter = time.Duration(rapid.IntRange(5, 80).Draw(t, "cancelMs")) * time.Millisecond
		}
		beh := map[string]string{}
		faults := []string{"", "", "", "", "error500", "nonjson", "drop", "cut"}
		if cancelAfter > 0 {
			// a daemon that never answers: only with a caller that gives up
			// (the unpin and request timeouts are seconds long)
			faults = append(faults, "hang", "hang")
		}
		beh["pin/ls"] = rapid.SampledFrom(faults).Draw(t, "b-ls")
		addB := []string{"", "", "", "error500", "nonjson", "drop", "stall", "progress-stall", "repeat-stall", "progress-drop", "slow-progress"}
		if !kf.Open(KFTrailer) {
			addB = append(addB, "progress-trailer-error", "progress-trailer-error")
		} else {
			leg.Excl("pin/add answering progress then an X-Stream-Error trailer not generated (" + KFTrailer + ")")
		}
		beh["pin/add"] = rapid.SampledFrom(addB).Draw(t, "b-add")
		beh["pin/rm"] = rapid.SampledFrom(faults).Draw(t, "b-rm")
		beh["pin/update"] = rapid.SampledFrom(faults).Draw(t, "b-update")

		dm.mu.Lock()
		dm.table = map[string]string{}
		if prior != "" {
			dm.table[c.String()] = prior
		}
		if from.Defined() && priorFrom != "" {
			dm.table[from.String()] = priorFrom
		}
		dm.behave = beh
		dm.requests = nil
		dm.badUnpin = false
		dm.capHit = false
		dm.stuck = ""
		dm.mu.Unlock()

		ctx, cancel := context.WithCancel(context.Background())
		if cancelAfter > 0 {
			ctx, cancel = context.WithTimeout(context.Background(), cancelAfter)
		}
		defer cancel()
		desc := fmt.Sprintf("%s cid=%d depth=%d origins=%d update=%v prior=%q priorFrom=%q beh=%v cancel=%v", op, idx(c), pin.MaxDepth, len(pin.Origins), from.Defined(), prior, priorFrom, behStr(beh), cancelAfter)
		start := time.Now()
		var err error
		var ls api.IPFSPinStatus
		switch op {
		case "pin":
			err = conn.Pin(ctx, pin)
		case "unpin":
			err = conn.Unpin(ctx, c)
		case "ls":
			ls, err = conn.PinLsCid(ctx, pin)
		}
		took := time.Since(start)
		// let background swarm/connect calls land before reading the log
		dm.mu.Lock()
		reqs := append([]string(nil), dm.requests...)
		after := dm.table[c.String()]
		afterFrom := dm.table[from.String()]
		badUnpin := dm.badUnpin
		stuck := dm.stuck
		dm.mu.Unlock()
		if stuck != "" {
			t.Fatalf("the daemon left a %s request unanswered and the connector still had it open %v later (pin timeout %v, caller gave up after %v; returned %v after %v)\ncase: %s", stuck, 40*pinTimeout, pinTimeout, cancelAfter, err, took, desc)
		}
		mutating := 0
		updates := 0
		for _, r := range reqs {
			if strings.HasPrefix(r, "pin/add?") || strings.HasPrefix(r, "pin/update?") || strings.HasPrefix(r, "pin/rm?") {
				mutating++
			}
			if strings.HasPrefix(r, "pin/update?") {
				updates++
				if !strings.Contains(r, "unpin=false") {
					t.Fatalf("pin/update requested without unpin=false: %s\ncase: %s", r, desc)
				}
			}
		}
		if took > 10*time.Second {
			t.Fatalf("operation took %v (pin timeout %v)\ncase: %s", took, pinTimeout, desc)
		}
		if badUnpin {
			t.Fatalf("pin/update unpinned the source\ncase: %s", desc)
		}
		want := wantType(pin)
		nontrivial := false
		classes := []string{"op:" + op}
		switch op {
		case "pin":
			if err == nil && after != want {
				t.Fatalf("Pin reported success but the daemon holds %q for the CID (want %q)\ncase: %s\nrequests: %v", after, want, desc, reqs)
			}
			if prior == want && beh["pin/ls"] == "" {
				classes = append(classes, "already-pinned")
				if err != nil && cancelAfter > 0 && took >= cancelAfter && strings.Contains(err.Error(), "context") {
					// the caller's own deadline (5-80 ms) ran out before the
					// daemon's pin/ls answer came back: the caller asked for that
					classes = append(classes, "caller-deadline-before-answer")
				} else if err != nil {
					t.Fatalf("already pinned as asked, but Pin failed: %v\ncase: %s", err, desc)
				}
				if mutating != 0 {
					t.Fatalf("already pinned as asked, but a mutating request reached the daemon: %v\ncase: %s", reqs, desc)
				}
			}
			if updates > 0 {
				classes = append(classes, "used-update")
				if priorFrom != "recursive" {
					t.Fatalf("pin/update used although the source is %q, not recursively pinned\ncase: %s", priorFrom, desc)
				}
			}
			if from.Defined() && afterFrom != priorFrom {
				t.Fatalf("the update source entry changed from %q to %q\ncase: %s", priorFrom, afterFrom, desc)
			}
			if (beh["pin/ls"] == "drop" || beh["pin/ls"] == "cut") && err == nil {
				t.Fatalf("the pin/ls conversation failed at transport level (%s) but Pin reported success\ncase: %s\nrequests: %v", beh["pin/ls"], desc, reqs)
			}
			conflict := want == "direct" && prior == "recursive"
			// the statement says a pin update is used *only* when the source is
			// recursively pinned, not that it must be used then (for a direct
			// pin the connector looks the source up as a direct pin, does not
			// find it, and adds normally): which path ran is taken from the
			// requests the daemon saw
			usesUpdate := updates > 0
			noFault := beh["pin/ls"] == "" && cancelAfter == 0 && ((usesUpdate && beh["pin/update"] == "") || (!usesUpdate && (beh["pin/add"] == "" || beh["pin/add"] == "slow-progress")))
			if noFault && !conflict && err != nil && took >= pinTimeout && strings.Contains(err.Error(), "context") {
				// the fake daemon was not scheduled for longer than the pin
				// timeout (150 ms) on a loaded machine and the connector's
				// no-progress watchdog fired, as it should: nothing to judge
				leg.Inconclusive(fmt.Sprintf("a fault-free pin took %v (pin timeout %v) and was given up: machine too busy", took, pinTimeout))
				t.Skip("inconclusive")
			}
			if noFault && !conflict && err != nil {
				t.Fatalf("no fault injected and a compatible prior state, but Pin failed: %v\ncase: %s\nrequests: %v", err, desc, reqs)
			}
			if beh["pin/add"] == "slow-progress" {
				classes = append(classes, "slow-progress")
			}
			if beh["pin/add"] == "repeat-stall" && !usesUpdate && prior != want && beh["pin/ls"] == "" && cancelAfter == 0 {
				classes = append(classes, "repeat-stall")
				dm.mu.Lock()
				hit := dm.capHit
				dm.mu.Unlock()
				if hit || err == nil {
					t.Fatalf("the daemon repeated the same progress figure for 40 pin timeouts and Pin did not give up (err=%v)\ncase: %s", err, desc)
				}
			}
			if (beh["pin/add"] == "stall" || beh["pin/add"] == "progress-stall") && !usesUpdate && prior != want && beh["pin/ls"] == "" && cancelAfter == 0 {
				classes = append(classes, "stall")
				if err == nil {
					t.Fatalf("the pin stalled but Pin reported success\ncase: %s", desc)
				}
			}
			nontrivial = conflict || from.Defined() || (beh["pin/add"] != "" && prior != want) || (usesUpdate && beh["pin/update"] != "")
		case "unpin":
			if err == nil && after != "" && after != "indirect" {
				t.Fatalf("Unpin reported success but the daemon still holds %q\ncase: %s", after, desc)
			}
			if beh["pin/rm"] == "" && cancelAfter == 0 && err != nil {
				t.Fatalf("no fault injected but Unpin failed (prior %q): %v\ncase: %s", prior, err, desc)
			}
			if (prior == "" || prior == "indirect") && beh["pin/rm"] == "" {
				classes = append(classes, "unpin-absent")
			}
			nontrivial = beh["pin/rm"] != "" || prior == "" || prior == "indirect"
		case "ls":
			if beh["pin/ls"] == "" && cancelAfter == 0 {
				if err != nil {
					t.Fatalf("PinLsCid failed without a fault: %v\ncase: %s", err, desc)
				}
				if ls.IsPinned(pin.MaxDepth) != (prior == want) {
					t.Fatalf("PinLsCid says pinned-as-asked=%v (status %d) but the daemon entry is %q and %q was asked\ncase: %s", ls.IsPinned(pin.MaxDepth), ls, prior, want, desc)
				}
			}
			if (beh["pin/ls"] == "nonjson" || beh["pin/ls"] == "drop" || beh["pin/ls"] == "cut") && err == nil {
				t.Fatalf("transport failure on pin/ls but PinLsCid returned status %d without error\ncase: %s", ls, desc)
			}
			nontrivial = prior != "" && prior != want
		}
		if err != nil {
			classes = append(classes, "returned-error")
		}
		if beh["pin/ls"] == "hang" || (op == "unpin" && beh["pin/rm"] == "hang") || (op == "pin" && beh["pin/update"] == "hang" && from.Defined()) {
			classes = append(classes, "endpoint-never-answers")
		}
		leg.Case(desc, nontrivial, classes...)
	})
}

func idx(c cid.Cid) int {
	for i, u := range gen.Cids {
		if u.Equals(c) {
			return i
		}
	}
	return -1
}

func behStr(b map[string]string) string {
	var s []string
	for k, v := range b {
		if v != "" {
			s = append(s, k+":"+v)
		}
	}
	sort.Strings(s)
	return strings.Join(s, ",")
}
