// Package c09: only fresh metrics from members are used; an expired peer
// alerts once.
package c09

import (
	"context"
	"fmt"
	"os"
	"sort"
	"strings"
	"sync/atomic"
	"testing"
	"time"

	"verifharness/internal/ev"
	"verifharness/internal/fakes"
	"verifharness/internal/gen"
	"verifharness/internal/kf"

	ipfscluster "github.com/ipfs/ipfs-cluster"
	"github.com/ipfs/ipfs-cluster/api"
	"github.com/ipfs/ipfs-cluster/monitor/metrics"
	"github.com/ipfs/ipfs-cluster/monitor/pubsubmon"
	peer "github.com/libp2p/go-libp2p-core/peer"
	pubsub "github.com/libp2p/go-libp2p-pubsub"
	"pgregory.net/rapid"
)

var (
	mon      *pubsubmon.Monitor
	monPeers atomic.Value // []peer.ID or nil
)

func TestMain(m *testing.M) {
	ctx := context.Background()
	h := fakes.NewHost(gen.PeerKeys[0], false)
	psub, err := pubsub.NewGossipSub(ctx, h)
	if err != nil {
		panic(err)
	}
	cfg := &pubsubmon.Config{}
	cfg.Default()
	cfg.CheckInterval = time.Hour
	monPeers.Store([]peer.ID{})
	mon, err = pubsubmon.New(ctx, cfg, psub, func(context.Context) ([]peer.ID, error) {
		return monPeers.Load().([]peer.ID), nil
	})
	if err != nil {
		panic(err)
	}
	mon.SetClient(nil) // starts the loop that receives the topic
	code := m.Run()
	ev.Flush()
	os.Exit(code)
}

// KFMultiAlert: CheckPeers raises ceil(k/2) alerts for a pair with k samples.
const KFMultiAlert = "C09-checkpeers-alerts-per-sample"

// KFSwallow: a pair that was reported, renewed and expired again before any
// failure check saw it healthy is forgotten without a second report.
const KFSwallow = "C09-failure-swallowed-after-renewal-between-checks"

func pi(p peer.ID) int {
	for i, q := range gen.Peers {
		if q == p {
			return i
		}
	}
	return -1
}

type sample struct {
	valid   bool
	expired bool
	value   string
}

type pairKey struct {
	name string
	peer peer.ID
}

type pairState struct {
	samples []sample // arrival order, capped at the window size
	alerted bool     // an alert was raised since the last renewal
	// stale: the pair was reported, then renewed, and no failure check has
	// seen it healthy since (see KFSwallow)
	stale bool
}

type model struct {
	pairs map[pairKey]*pairState
}

func (m *model) latest(k pairKey) *sample {
	p := m.pairs[k]
	if p == nil || len(p.samples) == 0 {
		return nil
	}
	return &p.samples[len(p.samples)-1]
}

func mkMetric(name string, p peer.ID, s sample) *api.Metric {
	mt := &api.Metric{Name: name, Peer: p, Value: s.value, Valid: s.valid}
	if s.expired {
		mt.Expire = time.Now().Add(-time.Hour).UnixNano()
	} else {
		mt.Expire = time.Now().Add(time.Hour).UnixNano()
	}
	return mt
}

func renderMetrics(ms []*api.Metric) string {
	var s []string
	for _, m := range ms {
		s = append(s, fmt.Sprintf("P%d=%s", pi(m.Peer), m.Value))
	}
	return strings.Join(s, ",")
}

var caseN int64

const ruleStore = "state machine over 2 metric names x 5 peers (one never a member): log (valid/invalid, expired/unexpired +-1h, value stamped with a counter), bursts of 30+ arrivals (window wrap), remove peer, failure checks over a generated peerset (CheckPeers) or over everything (CheckAll), with the alert channel drained after every check; model = last metric per (name, peer) and an 'alerted since renewal' flag; non-trivial = a pair with >= 3 samples whose latest is expired is checked at least twice, or a check runs with a peerset that excludes a peer holding fresh metrics; distinct by action script"

func TestStoreChecker(t *testing.T) {
	leg := ev.L("store-checker", ruleStore)
	names := []string{"ping", "m1"}
	peers := gen.Peers[:5]
	rapid.Check(t, func(t *rapid.T) {
		store := metrics.NewStore()
		checker := metrics.NewChecker(context.Background(), store, 3.0)
		m := &model{pairs: map[pairKey]*pairState{}}
		var script []string
		counter := 0
		classes := map[string]bool{}
		checksOnExpired := map[pairKey]int{}
		multi := !kf.Open(KFMultiAlert) // allow pairs with >= 3 samples to be checked

		logOne := func(name string, p peer.ID, s sample) {
			counter++
			s.value = fmt.Sprintf("%d", counter)
			store.Add(mkMetric(name, p, s))
			k := pairKey{name, p}
			ps := m.pairs[k]
			if ps == nil {
				ps = &pairState{}
				m.pairs[k] = ps
			}
			ps.samples = append(ps.samples, s)
			if len(ps.samples) > metrics.DefaultWindowCap {
				ps.samples = ps.samples[len(ps.samples)-metrics.DefaultWindowCap:]
			}
			if !s.expired {
				if ps.alerted {
					ps.stale = true
				}
				ps.alerted = false // renewal
			}
		}
		// excluded reports whether logging an expired sample for the pair would
		// enter the listed finding KFSwallow
		excluded := func(name string, p peer.ID, expired bool) bool {
			ps := m.pairs[pairKey{name, p}]
			if ps != nil && ps.stale && expired && kf.Open(KFSwallow) {
				leg.Excl("expired sample right after an alert and a renewal, with no check in between, not generated (" + KFSwallow + ")")
				return true
			}
			return false
		}

		checkLatest := func() {
			for _, name := range names {
				var want []string
				for _, p := range sortedPeers(peers) {
					l := m.latest(pairKey{name, p})
					if l != nil && l.valid && !l.expired {
						want = append(want, fmt.Sprintf("P%d=%s", pi(p), l.value))
					}
				}
				got := store.LatestValid(name)
				for i := 1; i < len(got); i++ {
					if !(got[i-1].Peer < got[i].Peer) {
						t.Fatalf("LatestValid(%s) is not sorted by peer / has a duplicate peer: %s\nscript: %s", name, renderMetrics(got), strings.Join(script, " ; "))
					}
				}
				if g, w := renderMetrics(got), strings.Join(want, ","); g != w {
					t.Fatalf("LatestValid(%s) = [%s], want [%s] (latest per peer, valid and unexpired only)\nscript: %s", name, g, w, strings.Join(script, " ; "))
				}
				for _, p := range peers {
					l := m.latest(pairKey{name, p})
					g := store.PeerLatest(name, p)
					if (l == nil) != (g == nil) || (l != nil && l.value != g.Value) {
						t.Fatalf("PeerLatest(%s,P%d) = %v, model %v\nscript: %s", name, pi(p), g, l, strings.Join(script, " ; "))
					}
				}
			}
		}

		doCheck := func(set []peer.ID, all bool) {
			// expectation before the check
			type exp struct {
				mustAlert bool // exactly one alert expected
				mayAlert  bool // at most one alert allowed
			}
			expect := map[pairKey]exp{}
			forget := map[pairKey]bool{}
			for k, ps := range m.pairs {
				if len(ps.samples) == 0 {
					continue
				}
				inScope := all || containsPeer(set, k.peer)
				l := ps.samples[len(ps.samples)-1]
				if !inScope {
					continue
				}
				if all && !l.valid {
					continue // CheckAll only looks at valid metrics
				}
				if !l.expired {
					ps.stale = false // a check saw it healthy
					continue
				}
				checksOnExpired[k]++
				if len(ps.samples) >= 3 && checksOnExpired[k] >= 2 {
					classes["nontrivial"] = true
				}
				if ps.alerted {
					// already reported once: now it must be forgotten, silently
					// (with >= 6 samples the accrual detector decides, which
					// depends on arrival times: not judged)
					if len(ps.samples) < 6 {
						forget[k] = true
					} else {
						expect[k] = exp{}
					}
					continue
				}
				if len(ps.samples) < 6 {
					expect[k] = exp{mustAlert: true, mayAlert: true}
				} else {
					expect[k] = exp{mayAlert: true}
				}
			}
			var err error
			if all {
				err = checker.CheckAll()
			} else {
				err = checker.CheckPeers(set)
			}
			if err != nil {
				t.Fatalf("check returned %v\nscript: %s", err, strings.Join(script, " ; "))
			}
			got := map[pairKey]int{}
		drain:
			for {
				select {
				case a := <-checker.Alerts():
					got[pairKey{a.Name, a.Peer}]++
				default:
					break drain
				}
			}
			for k, n := range got {
				e, ok := expect[k]
				l := m.latest(k)
				if l != nil && !l.expired {
					t.Fatalf("alert for (%s,P%d) whose latest metric is unexpired\nscript: %s", k.name, pi(k.peer), strings.Join(script, " ; "))
				}
				if ok && !e.mayAlert && m.pairs[k] != nil && len(m.pairs[k].samples) >= 6 {
					continue // accrual-ruled pair that was reported before: not judged
				}
				if !ok || !e.mayAlert {
					t.Fatalf("unexpected alert for (%s,P%d) (already reported since its last renewal, or out of scope)\nscript: %s", k.name, pi(k.peer), strings.Join(script, " ; "))
				}
				if n > 1 {
					t.Fatalf("%d alerts for (%s,P%d) in one check, want one\nscript: %s", n, k.name, pi(k.peer), strings.Join(script, " ; "))
				}
			}
			for k, e := range expect {
				if e.mustAlert && got[k] != 1 {
					t.Fatalf("no alert for (%s,P%d) whose latest metric expired without renewal\nscript: %s", k.name, pi(k.peer), strings.Join(script, " ; "))
				}
				if got[k] == 1 {
					m.pairs[k].alerted = true
					classes["alerted"] = true
				}
			}
			// pairs ruled by the accrual detector: take over what the store did
			for k, ps := range m.pairs {
				if len(ps.samples) >= 6 && store.PeerLatest(k.name, k.peer) == nil {
					delete(m.pairs, k)
					delete(checksOnExpired, k)
				}
			}
			for k := range forget {
				// reported before, checked again: the stale metric must be gone
				if g := store.PeerLatest(k.name, k.peer); g != nil {
					t.Fatalf("stale metric of (%s,P%d) still stored after it was reported and checked again\nscript: %s", k.name, pi(k.peer), strings.Join(script, " ; "))
				}
				delete(m.pairs, k)
				delete(checksOnExpired, k)
				classes["forgotten"] = true
			}
		}

		t.Repeat(map[string]func(*rapid.T){
			"log": func(t *rapid.T) {
				name := rapid.SampledFrom(names).Draw(t, "name")
				p := rapid.SampledFrom(peers).Draw(t, "peer")
				s := sample{valid: rapid.IntRange(0, 4).Draw(t, "valid") != 0, expired: rapid.IntRange(0, 2).Draw(t, "expired") == 0}
				if !multi {
					if ps := m.pairs[pairKey{name, p}]; ps != nil && len(ps.samples) >= 2 {
						leg.Excl("third sample for a pair not generated (" + KFMultiAlert + ")")
						t.Skip("excluded")
					}
				}
				if excluded(name, p, s.expired) {
					t.Skip("excluded")
				}
				logOne(name, p, s)
				script = append(script, fmt.Sprintf("log(%s,P%d,valid=%v,expired=%v)", name, pi(p), s.valid, s.expired))
			},
			"burst": func(t *rapid.T) {
				if !multi {
					t.Skip("excluded")
				}
				name := rapid.SampledFrom(names).Draw(t, "name")
				p := rapid.SampledFrom(peers).Draw(t, "peer")
				n := rapid.IntRange(3, 40).Draw(t, "n")
				lastExpired := rapid.Bool().Draw(t, "lastExpired")
				if lastExpired && kf.Open(KFSwallow) {
					if ps := m.pairs[pairKey{name, p}]; ps != nil && (ps.alerted || ps.stale) {
						leg.Excl("burst ending expired right after an alert not generated (" + KFSwallow + ")")
						t.Skip("excluded")
					}
				}
				for i := 0; i < n; i++ {
					logOne(name, p, sample{valid: true, expired: lastExpired && i == n-1})
				}
				if n > metrics.DefaultWindowCap {
					classes["window-wrap"] = true
				}
				script = append(script, fmt.Sprintf("burst(%s,P%d,n=%d,lastExpired=%v)", name, pi(p), n, lastExpired))
			},
			"removePeer": func(t *rapid.T) {
				p := rapid.SampledFrom(peers).Draw(t, "peer")
				for k, ps := range m.pairs {
					if k.peer == p && (ps.alerted || ps.stale) {
						// Store.RemovePeer has no production caller and does not
						// tell the checker: only used on pairs without alert history
						t.Skip("pair has alert history")
					}
				}
				store.RemovePeer(p)
				for k := range m.pairs {
					if k.peer == p {
						delete(m.pairs, k)
						delete(checksOnExpired, k)
					}
				}
				script = append(script, fmt.Sprintf("removePeer(P%d)", pi(p)))
			},
			"checkPeers": func(t *rapid.T) {
				set := gen.PeerSubset(5, 5).Draw(t, "set")
				script = append(script, fmt.Sprintf("checkPeers(%d peers)", len(set)))
				doCheck(set, false)
			},
			"checkAll": func(t *rapid.T) {
				script = append(script, "checkAll")
				doCheck(nil, true)
			},
			"": func(t *rapid.T) { checkLatest() },
		})
		var cl []string
		for k := range classes {
			if k != "nontrivial" {
				cl = append(cl, k)
			}
		}
		sort.Strings(cl)
		leg.Case(strings.Join(script, " ; "), classes["nontrivial"], cl...)
	})
}

func containsPeer(l []peer.ID, p peer.ID) bool {
	for _, q := range l {
		if q == p {
			return true
		}
	}
	return false
}

func sortedPeers(ps []peer.ID) []peer.ID {
	out := append([]peer.ID(nil), ps...)
	sort.Slice(out, func(i, j int) bool { return out[i] < out[j] })
	return out
}

const ruleMon = "real pubsubmon.Monitor: 1-12 metrics per case, handed to LogMetric or (one case in three) published on the pubsub topic the monitor itself receives, under a fresh name for peers inside and outside a generated peerset (valid/invalid, expired/unexpired, re-logged so that 'latest wins' matters), peerset changed between reads; LatestMetrics must equal the model (latest per peer, valid, unexpired, member); non-trivial = a non-member holds a fresh valid metric or a peer's latest metric differs in freshness from an earlier one; distinct by script"

func TestMonitorLatest(t *testing.T) {
	leg := ev.L("monitor-latest", ruleMon)
	ctx := context.Background()
	rapid.Check(t, func(t *rapid.T) {
		name := fmt.Sprintf("n%d", atomic.AddInt64(&caseN, 1))
		latest := map[peer.ID]sample{}
		var script []string
		nontrivial := false
		n := rapid.IntRange(1, 12).Draw(t, "n")
		// the metrics reach the monitor through LogMetric (its own peer's) or
		// through the pubsub topic (everybody else's: PublishMetric on the same
		// monitor, which receives its own topic; invalid and expired metrics
		// are not published at all)
		viaPubsub := rapid.IntRange(0, 2).Draw(t, "route") == 0
		// the topic does not keep the order of two messages (signatures are
		// verified by a pool of workers), so each published metric is awaited
		// before the next one goes out
		await := func(p peer.ID, value string) {
			monPeers.Store(append([]peer.ID(nil), gen.Peers[:6]...))
			for deadline := time.Now().Add(15 * time.Second); ; time.Sleep(200 * time.Microsecond) {
				for _, m := range mon.LatestMetrics(ctx, name) {
					if m.Peer == p && m.Value == value {
						return
					}
				}
				if time.Now().After(deadline) {
					leg.Inconclusive("a published metric did not come back on the topic within 15 s")
					t.Skip("inconclusive")
				}
			}
		}
		check := func() {
			set := gen.PeerSubset(6, 6).Draw(t, "peerset")
			monPeers.Store(set)
			var want []string
			for _, p := range sortedPeers(gen.Peers[:6]) {
				s, ok := latest[p]
				if ok && s.valid && !s.expired {
					if containsPeer(set, p) {
						want = append(want, fmt.Sprintf("P%d=%s", pi(p), s.value))
					} else {
						nontrivial = true
					}
				}
			}
			got := mon.LatestMetrics(ctx, name)
			if g, w := renderMetrics(got), strings.Join(want, ","); g != w {
				t.Fatalf("LatestMetrics = [%s], want [%s]; peerset %d peers\nscript: %s", g, w, len(set), strings.Join(script, " ; "))
			}
			script = append(script, fmt.Sprintf("read(peerset=%d)", len(set)))
		}
		for i := 0; i < n; i++ {
			p := gen.PeerN(6).Draw(t, "peer")
			s := sample{valid: rapid.IntRange(0, 4).Draw(t, "valid") != 0, expired: rapid.IntRange(0, 2).Draw(t, "expired") == 0, value: fmt.Sprintf("%d", i)}
			if old, ok := latest[p]; ok && (old.expired != s.expired || old.valid != s.valid) {
				nontrivial = true
			}
			if viaPubsub {
				if err := mon.PublishMetric(ctx, mkMetric(name, p, s)); err != nil {
					t.Fatal(err)
				}
				if s.valid && !s.expired {
					latest[p] = s
					await(p, s.value)
				}
				script = append(script, fmt.Sprintf("publish(P%d,valid=%v,expired=%v)", pi(p), s.valid, s.expired))
			} else {
				if err := mon.LogMetric(ctx, mkMetric(name, p, s)); err != nil {
					t.Fatal(err)
				}
				latest[p] = s
				script = append(script, fmt.Sprintf("log(P%d,valid=%v,expired=%v)", pi(p), s.valid, s.expired))
			}
			if rapid.IntRange(0, 3).Draw(t, "read") == 0 {
				check()
			}
		}
		check()
		cl := "route:log"
		if viaPubsub {
			cl = "route:pubsub"
		}
		leg.Case(strings.Join(script, " ; "), nontrivial, cl)
	})
}

const ruleCadence = "real Cluster with a recording monitor and one or two informers: ping interval 400-800 ms, informer TTL 1-2 s, PublishMetric failing for 0-2 generated runs of 1-3 consecutive informer attempts and, in a third of the cases, for one ping attempt; observed for 3.5 s; oracle: with at most one failed attempt in between, the next publication of a name comes no later than the previous successfully published one expires; two consecutive attempts are never further apart than half the metric's lifetime plus 400 ms; at the end of the observation the last attempt is no older than that (the loop is alive); ping TTL = 2 x interval; an apparent violation must reproduce in 3 consecutive runs of the same configuration; non-trivial = at least 3 publications per name observed; distinct by configuration"

func TestCadence(t *testing.T) {
	leg := ev.L("cadence", ruleCadence)
	rapid.Check(t, func(t *rapid.T) {
		pingMs := rapid.IntRange(400, 800).Draw(t, "pingMs")
		ttlMs := rapid.IntRange(1000, 2000).Draw(t, "ttlMs")
		failAt := map[int]bool{}
		// 0-2 runs of 1-3 consecutive failing attempts
		nf := rapid.IntRange(0, 2).Draw(t, "nfail")
		pos := 2
		for i := 0; i < nf; i++ {
			pos += rapid.IntRange(0, 1).Draw(t, "failpos")
			for l := rapid.IntRange(1, 3).Draw(t, "runlen"); l > 0; l-- {
				failAt[pos] = true
				pos++
			}
			pos++
		}
		// a second informer in half of the cases (a peer usually runs several)
		extra := rapid.Bool().Draw(t, "secondInformer")
		// one publish error for the ping (its 2nd-4th attempt) in a third of the cases
		pingFailAt := 0
		if rapid.IntRange(0, 2).Draw(t, "pingFails") == 0 {
			pingFailAt = rapid.IntRange(2, 4).Draw(t, "pingFailAt")
		}
		var lastMsg string
		ok := false
		var npub int
		for attempt := 0; attempt < 3 && !ok; attempt++ {
			lastMsg, npub = runCadence(pingMs, ttlMs, failAt, extra, pingFailAt)
			ok = lastMsg == ""
			if !ok {
				leg.Note("attempt %d: %s", attempt, lastMsg)
			}
		}
		if !ok {
			t.Fatalf("3 consecutive runs: %s (ping interval %d ms, informer TTL %d ms, failing informer attempts %v, failing ping attempt %d)", lastMsg, pingMs, ttlMs, failAt, pingFailAt)
		}
		leg.Case(fmt.Sprintf("ping=%dms ttl=%dms fail=%v second-informer=%v ping-fail=%d", pingMs, ttlMs, failAt, extra, pingFailAt), npub >= 3)
	})
}

func runCadence(pingMs, ttlMs int, failAt map[int]bool, extra bool, pingFailAt int) (string, int) {
	infAttempts := 0
	pingAttempts := 0
	var extras []string
	if extra {
		extras = []string{"extra"}
	}
	f := fakes.NewCluster(fakes.ClusterOpts{Key: gen.PeerKeys[1], ExtraInformers: extras, InformerTTL: time.Duration(ttlMs) * time.Millisecond, Mutate: func(cfg *ipfscluster.Config) {
		cfg.MonitorPingInterval = time.Duration(pingMs) * time.Millisecond
	}, BeforeStart: func(m *fakes.Monitor) {
		m.FailPub = func(n int, mt *api.Metric) error {
			if mt.Name == "ping" {
				pingAttempts++
				if pingAttempts == pingFailAt {
					return fmt.Errorf("injected publish error")
				}
				return nil
			}
			if mt.Name != "boot" {
				return nil
			}
			infAttempts++
			if failAt[infAttempts] {
				return fmt.Errorf("injected publish error")
			}
			return nil
		}
	}})
	time.Sleep(3500 * time.Millisecond)
	pubs, times, errs := f.Mon.TakePublishedFull()
	end := time.Now()
	f.Close()
	type rec struct {
		at     time.Time
		expire time.Time
		ok     bool
	}
	by := map[string][]rec{}
	for i, p := range pubs {
		by[p.Name] = append(by[p.Name], rec{times[i], time.Unix(0, p.Expire), errs[i] == nil})
	}
	minPubs := 1 << 30
	for name, rs := range by {
		okPubs := 0
		failsSinceOk := 0
		var prev *rec
		for i := range rs {
			r := rs[i]
			if name == "ping" {
				ttl := r.expire.Sub(r.at)
				want := 2 * time.Duration(pingMs) * time.Millisecond
				if d := ttl - want; d < -50*time.Millisecond || d > 50*time.Millisecond {
					return fmt.Sprintf("ping metric has TTL %v, want 2 x interval = %v", ttl, want), 0
				}
			}
			// with at most one failed attempt in between, the next attempt
			// comes before the previous metric expires (a longer run of
			// publish errors necessarily outlasts the metric)
			// (the ping lives for two intervals and is republished every
			// interval: it tolerates no failed attempt in between)
			tolerated := 1
			if name == "ping" {
				tolerated = 0
			}
			if prev != nil && failsSinceOk <= tolerated && r.at.After(prev.expire) {
				return fmt.Sprintf("metric %q published at +%v, after the previous one expired at +%v (%d failed attempts in between)", name, r.at.Sub(rs[0].at), prev.expire.Sub(rs[0].at), failsSinceOk), 0
			}
			// attempts never pause for longer than the republish period
			if i > 0 {
				life := rs[i-1].expire.Sub(rs[i-1].at)
				if gap := r.at.Sub(rs[i-1].at); gap > life/2+400*time.Millisecond {
					return fmt.Sprintf("metric %q: %v between two publish attempts, the metric's lifetime is %v", name, gap.Round(time.Millisecond), life), 0
				}
			}
			if r.ok {
				okPubs++
				prev = &rs[i]
				failsSinceOk = 0
			} else {
				failsSinceOk++
			}
		}
		if okPubs < minPubs {
			minPubs = okPubs
		}
		// the loop must still be alive at the end of the observation: the
		// last attempt (successful or not) is at most one republish period
		// (half the metric's lifetime) plus slack old
		last := rs[len(rs)-1]
		life := last.expire.Sub(last.at)
		if idle := end.Sub(last.at); idle > life/2+400*time.Millisecond {
			return fmt.Sprintf("metric %q: last publish attempt %v before the end of the observation, its lifetime is %v: the peer stopped republishing", name, idle.Round(time.Millisecond), life), 0
		}
	}
	want := []string{"ping", "boot"}
	if extra {
		want = append(want, "extra")
	}
	for _, n := range want {
		if len(by[n]) == 0 {
			return fmt.Sprintf("metric %q was never published by the running peer in 3.5 s", n), 0
		}
	}
	return "", minPubs
}
