package c09

import (
	"context"
	"testing"

	"verifharness/internal/ev"
	"verifharness/internal/gen"
	"verifharness/internal/kf"

	"github.com/ipfs/ipfs-cluster/monitor/metrics"
	peer "github.com/libp2p/go-libp2p-core/peer"
)

func drain(c *metrics.Checker) int {
	n := 0
	for {
		select {
		case <-c.Alerts():
			n++
		default:
			return n
		}
	}
}

// three expired samples for one peer must give one alert, not two.
func TestRegressOneAlertPerPair(t *testing.T) {
	store := metrics.NewStore()
	checker := metrics.NewChecker(context.Background(), store, 3.0)
	p := gen.Peers[0]
	for i := 0; i < 3; i++ {
		store.Add(mkMetric("ping", p, sample{valid: true, expired: i == 2, value: "x"}))
	}
	checker.CheckPeers([]peer.ID{p})
	if n := drain(checker); n != 1 {
		t.Fatalf("%d alerts for a peer with 3 samples whose latest expired, want 1", n)
	}
}

// alert, renewal seen by a check, later failure: must be reported again.
func TestRegressSecondFailureReported(t *testing.T) {
	store := metrics.NewStore()
	checker := metrics.NewChecker(context.Background(), store, 3.0)
	p := gen.Peers[0]
	store.Add(mkMetric("ping", p, sample{valid: true, expired: true}))
	checker.CheckAll()
	if n := drain(checker); n != 1 {
		t.Fatalf("first failure: %d alerts", n)
	}
	store.Add(mkMetric("ping", p, sample{valid: true, expired: false}))
	checker.CheckAll()
	if n := drain(checker); n != 0 {
		t.Fatalf("alert while healthy")
	}
	store.Add(mkMetric("ping", p, sample{valid: true, expired: true}))
	checker.CheckAll()
	if n := drain(checker); n != 1 {
		t.Fatalf("second failure after a renewal was not reported (%d alerts)", n)
	}
}

// Probe of the open finding KFSwallow.
func TestRegressKnownSwallow(t *testing.T) {
	if !kf.Open(KFSwallow) {
		t.Skip("not listed")
	}
	store := metrics.NewStore()
	checker := metrics.NewChecker(context.Background(), store, 3.0)
	p := gen.Peers[0]
	store.Add(mkMetric("ping", p, sample{valid: true, expired: true}))
	checker.CheckAll()
	drain(checker)
	store.Add(mkMetric("ping", p, sample{valid: true, expired: false}))
	store.Add(mkMetric("ping", p, sample{valid: true, expired: true}))
	checker.CheckAll()
	n := drain(checker)
	ev.KnownFinding(KFSwallow, n == 0, "history log(expired);check;log(unexpired);log(expired);check gives no second alert: the renewal between two checks is invisible to the checker's counter")
}
