package c14

import (
	"bytes"
	"io/ioutil"
	"os"
	"path/filepath"
	"testing"
	"time"

	"verifharness/internal/fakes"
	"verifharness/internal/gen"

	"github.com/ipfs/ipfs-cluster/pstoremgr"
)

func TestRegressPeerstoreBadLine(t *testing.T) {
	file := filepath.Join(workdir, "ps-regress")
	ioutil.WriteFile(file, []byte("/ip4/999.1.1.1/tcp/1\n/ip4/10.0.0.1/tcp/9096/p2p/"+gen.Peers[1].Pretty()+"\n"), 0600)
	defer os.Remove(file)
	h := fakes.NewHost(gen.PeerKeys[6], false)
	defer h.Close()
	pm := pstoremgr.New(ctx, h, file)
	addrs := pm.LoadPeerstore()
	if len(addrs) != 1 || addrs[0] == nil {
		t.Fatalf("unparsable line not skipped: %v", addrs)
	}
	if err := pm.ImportPeers(addrs, false, time.Hour); err != nil {
		t.Fatal(err)
	}
}

func TestRegressEmptyImportCrdt(t *testing.T) {
	dir, _ := ioutil.TempDir(workdir, "empty-")
	defer os.RemoveAll(dir)
	m, _ := crdtManager(dir, "leveldb")
	defer func() {
		if r := recover(); r != nil {
			t.Fatalf("importing an empty export panics: %v", r)
		}
	}()
	if err := m.ImportState(bytes.NewReader(nil)); err != nil {
		t.Fatalf("importing an empty export fails: %v", err)
	}
}
