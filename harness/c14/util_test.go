package c14

import "encoding/json"

func jsonMarshal(v interface{}) ([]byte, error) { return json.Marshal(v) }
