// Package c14: state export/import, snapshots, backups and the peerstore
// file round-trip.
package c14

import (
	"bytes"
	"context"
	"fmt"
	"io/ioutil"
	"os"
	"path/filepath"
	"sort"
	"strings"
	"testing"
	"time"

	"verifharness/internal/cmpx"
	"verifharness/internal/ev"
	"verifharness/internal/fakes"
	"verifharness/internal/gen"

	cid "github.com/ipfs/go-cid"
	ds "github.com/ipfs/go-datastore"
	dssync "github.com/ipfs/go-datastore/sync"
	"github.com/ipfs/ipfs-cluster/api"
	"github.com/ipfs/ipfs-cluster/cmdutils"
	"github.com/ipfs/ipfs-cluster/consensus/raft"
	"github.com/ipfs/ipfs-cluster/datastore/inmem"
	"github.com/ipfs/ipfs-cluster/pstoremgr"
	"github.com/ipfs/ipfs-cluster/state/dsstate"
	peer "github.com/libp2p/go-libp2p-core/peer"
	peerstore "github.com/libp2p/go-libp2p-core/peerstore"
	ma "github.com/multiformats/go-multiaddr"
	"pgregory.net/rapid"
)

var workdir string

func TestMain(m *testing.M) {
	var err error
	workdir, err = ioutil.TempDir(os.Getenv("VERIF_WORKDIR"), "c14-")
	if err != nil {
		panic(err)
	}
	code := m.Run()
	os.RemoveAll(workdir)
	ev.Flush()
	os.Exit(code)
}

var ctx = context.Background()

var norm = cmpx.Norm{DropUserAllocs: true, ExpirySeconds: true, ModeFromDepth: true}

// pinset draws 0..max well-formed pins with distinct CIDs.
func pinset(t *rapid.T, max int, label string) []*api.Pin {
	n := rapid.IntRange(0, max).Draw(t, label+"-n")
	seen := map[string]bool{}
	var out []*api.Pin
	for i := 0; i < n; i++ {
		p := gen.Pin(gen.Full).Draw(t, label)
		if seen[p.Cid.String()] {
			continue
		}
		seen[p.Cid.String()] = true
		out = append(out, p)
	}
	return out
}

func render(pins []*api.Pin) string {
	var s []string
	for _, p := range pins {
		s = append(s, cmpx.PinStr(p, norm))
	}
	sort.Strings(s)
	return strings.Join(s, "\n")
}

func pinsetNontrivial(pins []*api.Pin) bool {
	types := map[api.PinType]bool{}
	opt := false
	for _, p := range pins {
		types[p.Type] = true
		if len(p.Origins) > 0 || len(p.Metadata) > 0 || !p.ExpireAt.IsZero() || p.PinUpdate.Defined() || len(p.Allocations) > 0 {
			opt = true
		}
	}
	return len(types) >= 2 && opt
}

func newState() *dsstate.State {
	st, err := dsstate.New(dssync.MutexWrap(ds.NewMapDatastore()), "/p", nil)
	if err != nil {
		panic(err)
	}
	return st
}

const rulePinset = "pinsets of 0-12 well-formed pins over all types and options (gen.Pin); non-trivial = at least 2 pin types and one optional field set; distinct by canonical rendering"

func TestMarshal(t *testing.T) {
	leg := ev.L("state-marshal", "State.Marshal then Unmarshal into an empty state: "+rulePinset)
	rapid.Check(t, func(t *rapid.T) {
		pins := pinset(t, 12, "pin")
		a := newState()
		for _, p := range pins {
			if err := a.Add(ctx, p); err != nil {
				t.Fatal(err)
			}
		}
		var buf bytes.Buffer
		if err := a.Marshal(&buf); err != nil {
			t.Fatalf("Marshal: %v", err)
		}
		b := newState()
		if err := b.Unmarshal(bytes.NewReader(buf.Bytes())); err != nil {
			t.Fatalf("Unmarshal: %v", err)
		}
		got, err := b.List(ctx)
		if err != nil {
			t.Fatal(err)
		}
		if w, g := render(pins), render(got); w != g {
			t.Fatalf("marshal/unmarshal changed the pinset: %s", cmpx.Diff(w, g))
		}
		for _, p := range pins {
			q, err := b.Get(ctx, p.Cid)
			if err != nil {
				t.Fatalf("pin %s is listed after Unmarshal but Get fails: %v", p.Cid, err)
			}
			if w, g := cmpx.PinStr(p, norm), cmpx.PinStr(q, norm); w != g {
				t.Fatalf("Get after Unmarshal: %s", cmpx.Diff(w, g))
			}
			if ok, _ := b.Has(ctx, p.Cid); !ok {
				t.Fatalf("Has(%s) false after Unmarshal", p.Cid)
			}
		}
		leg.Case(render(pins), pinsetNontrivial(pins))
	})
}

func exportJSON(t *rapid.T, pins []*api.Pin) []byte {
	// the export format is produced by the tree itself: fill an offline state
	// and use a throw-away raft manager? No: exportState is what ExportState
	// calls; we build the stream by exporting from a manager that imported it.
	return nil
}

func raftManager(dir string) (cmdutils.StateManager, *cmdutils.ConfigHelper) {
	ch := cmdutils.NewConfigHelper(filepath.Join(dir, "service.json"), filepath.Join(dir, "identity.json"), "raft", "")
	if err := ch.Manager().Default(); err != nil {
		panic(err)
	}
	ch.Identity().Default()
	if err := ch.SaveConfigToDisk(); err != nil { // sets the base dir of every section
		panic(err)
	}
	ch.Configs().Raft.BackupsRotate = 2
	m, err := cmdutils.NewStateManagerWithHelper(ch)
	if err != nil {
		panic(err)
	}
	return m, ch
}

func crdtManager(dir, store string) (cmdutils.StateManager, *cmdutils.ConfigHelper) {
	ch := cmdutils.NewConfigHelper(filepath.Join(dir, "service.json"), filepath.Join(dir, "identity.json"), "crdt", store)
	if err := ch.Manager().Default(); err != nil {
		panic(err)
	}
	ch.Identity().Default()
	if err := ch.SaveConfigToDisk(); err != nil {
		panic(err)
	}
	m, err := cmdutils.NewStateManagerWithHelper(ch)
	if err != nil {
		panic(err)
	}
	return m, ch
}

// jsonStream renders a pinset in the export format by importing it into a
// scratch raft manager and exporting it: no. The export format is "one JSON
// pin per line"; the harness writes it with the same encoder the REST API
// uses (encoding/json on api.Pin), which is what exportState does.
func jsonStream(pins []*api.Pin) []byte {
	var buf bytes.Buffer
	for _, p := range pins {
		b, err := jsonMarshal(p)
		if err != nil {
			panic(err)
		}
		buf.Write(b)
		buf.WriteByte('\n')
	}
	return buf.Bytes()
}

func listManager(t *rapid.T, m cmdutils.StateManager) []*api.Pin {
	store, err := m.GetStore()
	if err != nil {
		t.Fatalf("GetStore: %v", err)
	}
	defer store.Close()
	st, err := m.GetOfflineState(store)
	if err != nil {
		t.Fatalf("GetOfflineState: %v", err)
	}
	pins, err := st.List(ctx)
	if err != nil {
		t.Fatalf("List: %v", err)
	}
	return pins
}

func exportManager(t *rapid.T, m cmdutils.StateManager) []byte {
	var buf bytes.Buffer
	if err := m.ExportState(&buf); err != nil {
		t.Fatalf("ExportState: %v", err)
	}
	return buf.Bytes()
}

func roundTrip(t *rapid.T, leg *ev.Leg, mk func(dir string) cmdutils.StateManager, max int) {
	dir, err := ioutil.TempDir(workdir, "mgr-")
	if err != nil {
		t.Fatal(err)
	}
	defer os.RemoveAll(dir)
	a := pinset(t, max, "a")
	b := pinset(t, max, "b")
	src := mk(filepath.Join(dir, "src"))
	dst := mk(filepath.Join(dir, "dst"))
	// the destination already holds pinset B
	if err := dst.ImportState(bytes.NewReader(jsonStream(b))); err != nil {
		t.Fatalf("ImportState(B): %v", err)
	}
	if w, g := render(b), render(listManager(t, dst)); w != g {
		t.Fatalf("import of B: %s", cmpx.Diff(w, g))
	}
	// A lives in the source; export it and import it into the destination
	if err := src.ImportState(bytes.NewReader(jsonStream(a))); err != nil {
		t.Fatalf("ImportState(A): %v", err)
	}
	exported := exportManager(t, src)
	if err := dst.ImportState(bytes.NewReader(exported)); err != nil {
		t.Fatalf("ImportState(export of A): %v\nexport: %s", err, exported)
	}
	if w, g := render(a), render(listManager(t, dst)); w != g {
		t.Fatalf("export of A imported over B does not give A (import must replace): %s", cmpx.Diff(w, g))
	}
	// exporting again gives the same pinset
	again := exportManager(t, dst)
	tmp := mk(filepath.Join(dir, "tmp"))
	if err := tmp.ImportState(bytes.NewReader(again)); err != nil {
		t.Fatalf("re-import: %v", err)
	}
	if w, g := render(a), render(listManager(t, tmp)); w != g {
		t.Fatalf("second export differs: %s", cmpx.Diff(w, g))
	}
	overlap := false
	for _, p := range a {
		for _, q := range b {
			if p.Cid.Equals(q.Cid) {
				overlap = true
			}
		}
	}
	cl := ""
	if len(b) > 0 && !overlap {
		cl = "replace-disjoint"
	} else if overlap {
		cl = "replace-overlap"
	}
	leg.Case(render(a)+"\n--over--\n"+render(b), pinsetNontrivial(a) && len(b) > 0, cl)
}

func TestExportImportRaft(t *testing.T) {
	leg := ev.L("export-import-raft", "cmdutils raft state manager (import = clean + JSON stream into an offline state + SnapshotSave; export = OfflineState from the last snapshot + JSON stream): export of pinset A imported into a manager that holds pinset B must give A; "+rulePinset+" and B non-empty")
	rapid.Check(t, func(t *rapid.T) {
		roundTrip(t, leg, func(dir string) cmdutils.StateManager { m, _ := raftManager(dir); return m }, 8)
	})
}

func TestExportImportCrdt(t *testing.T) {
	leg := ev.L("export-import-crdt", "cmdutils crdt state manager over real badger and leveldb stores in temp dirs: same law; "+rulePinset+" and B non-empty")
	rapid.Check(t, func(t *rapid.T) {
		store := rapid.SampledFrom([]string{"badger", "leveldb"}).Draw(t, "datastore")
		roundTrip(t, leg, func(dir string) cmdutils.StateManager { m, _ := crdtManager(dir, store); return m }, 6)
	})
}

// Snapshot saved, read offline, read raw.
func TestSnapshotOffline(t *testing.T) {
	leg := ev.L("snapshot-offline", "raft.SnapshotSave of a pinset, then raft.OfflineState and LastStateRaw+Unmarshal: same pinset; a second SnapshotSave of another pinset replaces it and rotates the old data to a backup; "+rulePinset)
	rapid.Check(t, func(t *rapid.T) {
		dir, _ := ioutil.TempDir(workdir, "snap-")
		defer os.RemoveAll(dir)
		cfg := &raft.Config{}
		cfg.Default()
		cfg.DataFolder = filepath.Join(dir, "raft")
		cfg.BackupsRotate = rapid.IntRange(1, 3).Draw(t, "rotate")
		pids := gen.Peers[:rapid.IntRange(1, 3).Draw(t, "npeers")]
		for round := 0; round < 2; round++ {
			pins := pinset(t, 10, fmt.Sprintf("pins%d", round))
			st := newState()
			for _, p := range pins {
				st.Add(ctx, p)
			}
			if err := raft.SnapshotSave(cfg, st, pids); err != nil {
				t.Fatalf("SnapshotSave: %v", err)
			}
			off, err := raft.OfflineState(cfg, inmem.New())
			if err != nil {
				t.Fatalf("OfflineState: %v", err)
			}
			got, _ := off.List(ctx)
			if w, g := render(pins), render(got); w != g {
				t.Fatalf("round %d: OfflineState after SnapshotSave: %s", round, cmpx.Diff(w, g))
			}
			r, ok, err := raft.LastStateRaw(cfg)
			if err != nil || !ok {
				t.Fatalf("LastStateRaw: %v %v", ok, err)
			}
			st2, _ := dsstate.New(dssync.MutexWrap(ds.NewMapDatastore()), cfg.DatastoreNamespace, nil)
			if err := st2.Unmarshal(r); err != nil {
				t.Fatalf("Unmarshal(LastStateRaw): %v", err)
			}
			got2, _ := st2.List(ctx)
			if w, g := render(pins), render(got2); w != g {
				t.Fatalf("LastStateRaw: %s", cmpx.Diff(w, g))
			}
			leg.Case(render(pins), pinsetNontrivial(pins), fmt.Sprintf("round%d", round))
		}
	})
}

// ---- backups ----

func writeMarker(dir, id string) {
	os.MkdirAll(dir, 0700)
	ioutil.WriteFile(filepath.Join(dir, "marker"), []byte(id), 0600)
}

func readMarker(dir string) string {
	b, err := ioutil.ReadFile(filepath.Join(dir, "marker"))
	if err != nil {
		return ""
	}
	return string(b)
}

func markerPin(id string) *api.Pin {
	p := api.PinCid(gen.Cids[0])
	p.Name = id
	return p
}

// snapshotMarker reads the name of the marker pin from the snapshot in dir.
func snapshotMarker(dir string) string {
	cfg := &raft.Config{}
	cfg.Default()
	cfg.DataFolder = dir
	st, err := raft.OfflineState(cfg, inmem.New())
	if err != nil {
		return "ERR:" + err.Error()
	}
	pins, _ := st.List(ctx)
	if len(pins) != 1 {
		return fmt.Sprintf("?%d pins", len(pins))
	}
	return pins[0].Name
}

const ruleBackups = "state machine on raft.CleanupRaft with retention N in 1-5 and a generated set of pre-existing backup folders (indices 0..N+1, each with a marker): populate (SnapshotSave of a pinset carrying a fresh marker, or of the empty pinset), damageSnapshot (the snapshot file overwritten so that it no longer matches its checksum), makeEmpty (data folder without snapshot), clean; model from the statement: after a clean of data holding a snapshot .old.0 holds it, a contiguous prefix of backups moved up by one, only index N-1 may disappear, nothing else changes, data without a snapshot is removed without a backup; for pre-existing sets with gaps only 'newest = old data and at most one backup lost' is asserted; non-trivial = at least 2 cleans of snapshot-holding data with pre-existing backups; distinct by script"

func TestBackups(t *testing.T) {
	leg := ev.L("backups", ruleBackups)
	rapid.Check(t, func(t *rapid.T) {
		dir, _ := ioutil.TempDir(workdir, "bk-")
		defer os.RemoveAll(dir)
		keep := rapid.IntRange(1, 5).Draw(t, "keep")
		cfg := &raft.Config{}
		cfg.Default()
		cfg.DataFolder = filepath.Join(dir, "raft")
		cfg.BackupsRotate = keep
		name := func(i int) string { return filepath.Join(dir, fmt.Sprintf("raft.old.%d", i)) }
		// model: index -> marker
		model := map[int]string{}
		pre := 0
		for i := 0; i <= keep+1; i++ {
			if rapid.IntRange(0, 2).Draw(t, "pre") != 0 {
				id := fmt.Sprintf("pre%d", i)
				writeMarker(name(i), id)
				model[i] = id
				pre++
			}
		}
		var script []string
		script = append(script, fmt.Sprintf("keep=%d pre=%v", keep, keys(model)))
		data := "" // marker of the snapshot in the data folder, "" none, "-" = folder without snapshot
		n := 0
		cleans := 0
		listing := func() map[int]string {
			out := map[int]string{}
			ents, _ := ioutil.ReadDir(dir)
			for _, e := range ents {
				var i int
				if _, err := fmt.Sscanf(e.Name(), "raft.old.%d", &i); err == nil {
					m := readMarker(filepath.Join(dir, e.Name()))
					if m == "" {
						m = snapshotMarker(filepath.Join(dir, e.Name()))
					}
					out[i] = m
				}
			}
			return out
		}
		t.Repeat(map[string]func(*rapid.T){
			"populate": func(t *rapid.T) {
				if data != "" {
					t.Skip("data folder in use")
				}
				n++
				id := fmt.Sprintf("snap%d", n)
				st := newState()
				st.Add(ctx, markerPin(id))
				if err := raft.SnapshotSave(cfg, st, gen.Peers[:1]); err != nil {
					t.Fatalf("SnapshotSave: %v", err)
				}
				data = id
				script = append(script, "populate("+id+")")
			},
			"populateEmptyPinset": func(t *rapid.T) {
				// a snapshot of the empty pinset is still a snapshot (0 bytes long)
				if data != "" {
					t.Skip("data folder in use")
				}
				if err := raft.SnapshotSave(cfg, newState(), gen.Peers[:1]); err != nil {
					t.Fatalf("SnapshotSave: %v", err)
				}
				data = "?0 pins"
				script = append(script, "populate(empty pinset)")
			},
			"damageSnapshot": func(t *rapid.T) {
				// the newest snapshot cannot be read any more (bit rot, a
				// crash while it was written): the data still holds a snapshot
				// and a clean must set it aside, not delete it
				if data == "" || data == "-" {
					t.Skip("no snapshot to damage")
				}
				files, _ := filepath.Glob(filepath.Join(cfg.DataFolder, "snapshots", "*", "state.bin"))
				if len(files) == 0 {
					t.Fatalf("harness: no snapshot file under %s", cfg.DataFolder)
				}
				for _, f := range files {
					ioutil.WriteFile(f, []byte("damaged snapshot contents, not what the checksum says"), 0600)
				}
				n++
				data = fmt.Sprintf("damaged%d", n)
				writeMarker(cfg.DataFolder, data)
				script = append(script, "damageSnapshot("+data+")")
			},
			"makeEmpty": func(t *rapid.T) {
				if data != "" {
					t.Skip("data folder in use")
				}
				os.MkdirAll(cfg.DataFolder, 0700)
				ioutil.WriteFile(filepath.Join(cfg.DataFolder, "raft.db.partial"), []byte("x"), 0600)
				data = "-"
				script = append(script, "makeEmpty")
			},
			"clean": func(t *rapid.T) {
				before := listing()
				if err := raft.CleanupRaft(cfg); err != nil {
					t.Fatalf("CleanupRaft: %v", err)
				}
				script = append(script, "clean")
				after := listing()
				if _, err := os.Stat(cfg.DataFolder); err == nil {
					t.Fatalf("data folder still exists after clean\nscript: %v", script)
				}
				if data == "" || data == "-" {
					if fmt.Sprint(before) != fmt.Sprint(after) {
						t.Fatalf("cleaning data without a snapshot changed the backups: %v -> %v\nscript: %v", before, after, script)
					}
					data = ""
					return
				}
				cleans++
				if after[0] != data {
					t.Fatalf("after clean, .old.0 holds %q, want the cleaned data %q\nbefore %v after %v\nscript: %v", after[0], data, before, after, script)
				}
				// contiguous prefix of existing backups (among the managed ones)
				prefix := 0
				for prefix < keep {
					if _, ok := before[prefix]; !ok {
						break
					}
					prefix++
				}
				contiguous := true
				for i := range before {
					if i >= prefix && i < keep {
						contiguous = false
					}
				}
				lost := 0
				for i, m := range before {
					found := false
					for _, m2 := range after {
						if m2 == m {
							found = true
						}
					}
					if !found {
						lost++
						if contiguous && i != keep-1 {
							t.Fatalf("backup %q at index %d disappeared (only index %d may)\nbefore %v after %v\nscript: %v", m, i, keep-1, before, after, script)
						}
					}
				}
				if lost > 1 {
					t.Fatalf("%d backups lost by one clean\nbefore %v after %v\nscript: %v", lost, before, after, script)
				}
				if contiguous {
					for i := 0; i < prefix; i++ {
						if i+1 < keep && after[i+1] != before[i] {
							t.Fatalf("backup %q did not move from index %d to %d\nbefore %v after %v\nscript: %v", before[i], i, i+1, before, after, script)
						}
					}
					for i, m := range before {
						if i >= keep && after[i] != m {
							t.Fatalf("unmanaged folder at index %d changed\nbefore %v after %v", i, before, after)
						}
					}
					managed := 0
					for i := range after {
						if i < keep {
							managed++
						}
					}
					if managed > keep {
						t.Fatalf("more than %d managed backups: %v", keep, after)
					}
				}
				data = ""
			},
		})
		leg.Case(strings.Join(script, " ; "), cleans >= 2 && pre > 0, fmt.Sprintf("keep:%d", keep))
	})
}

func keys(m map[int]string) []int {
	var k []int
	for i := range m {
		k = append(k, i)
	}
	sort.Ints(k)
	return k
}

// ---- peerstore ----

func addrFor(t *rapid.T, p peer.ID) ma.Multiaddr {
	var s string
	switch rapid.IntRange(0, 2).Draw(t, "akind") {
	case 0:
		s = fmt.Sprintf("/ip4/10.1.%d.%d/tcp/%d", rapid.IntRange(0, 3).Draw(t, "a"), rapid.IntRange(1, 9).Draw(t, "b"), rapid.IntRange(9000, 9003).Draw(t, "port"))
	case 1:
		s = fmt.Sprintf("/ip6/fd00::%d/tcp/9096", rapid.IntRange(1, 9).Draw(t, "h"))
	default:
		s = fmt.Sprintf("/dns4/node%d.example.org/tcp/9096", rapid.IntRange(0, 5).Draw(t, "d"))
	}
	m, err := ma.NewMultiaddr(s)
	if err != nil {
		panic(err)
	}
	return m
}

func infosStr(infos []peer.AddrInfo) string {
	var s []string
	for _, pi := range infos {
		var as []string
		for _, a := range pi.Addrs {
			as = append(as, a.String())
		}
		sort.Strings(as)
		s = append(s, fmt.Sprintf("%s:%v", pi.ID.Pretty()[len(pi.ID.Pretty())-4:], as))
	}
	return strings.Join(s, " ")
}

func TestPeerstoreRoundTrip(t *testing.T) {
	leg := ev.L("peerstore-roundtrip", "1-6 peers with 1-3 addresses each (ip4, ip6, dns4) and generated priorities in a host's peerstore; SavePeerstore(PeerInfos), in half of the cases over a file that holds an earlier longer save, then LoadPeerstore/ImportPeers on a fresh host: the loaded addresses are the saved ones in order and PeerInfos gives the same peers in the same priority order with the same addresses; non-trivial = at least 2 peers, one of them with several addresses; distinct by rendering")
	h1 := fakes.NewHost(gen.PeerKeys[8], false)
	h2 := fakes.NewHost(gen.PeerKeys[9], false)
	rapid.Check(t, func(t *rapid.T) {
		file := filepath.Join(workdir, "peerstore")
		os.Remove(file)
		peers := gen.Peers[:8]
		for _, p := range peers {
			h1.Peerstore().ClearAddrs(p)
			h2.Peerstore().ClearAddrs(p)
			h2.Peerstore().Put(p, pstoremgr.PriorityTag, 0)
		}
		pm1 := pstoremgr.New(ctx, h1, file)
		n := rapid.IntRange(1, 6).Draw(t, "npeers")
		multi := false
		var used []peer.ID
		for i := 0; i < n; i++ {
			p := peers[i]
			na := rapid.IntRange(1, 3).Draw(t, "naddrs")
			if na > 1 {
				multi = true
			}
			for j := 0; j < na; j++ {
				h1.Peerstore().AddAddr(p, addrFor(t, p), peerstore.PermanentAddrTTL)
			}
			pm1.SetPriority(p, rapid.IntRange(0, 4).Draw(t, "prio"))
			used = append(used, p)
		}
		// in half of the cases the file already holds an earlier, longer save
		// (two more peers, since removed): saving replaces the contents
		resave := rapid.Bool().Draw(t, "resave")
		if resave {
			extra := peers[6:8]
			for _, p := range extra {
				for j := 0; j < 3; j++ {
					h1.Peerstore().AddAddr(p, addrFor(t, p), peerstore.PermanentAddrTTL)
				}
			}
			if err := pm1.SavePeerstore(pm1.PeerInfos(append(append([]peer.ID{}, used...), extra...))); err != nil {
				t.Fatalf("SavePeerstore: %v", err)
			}
			for _, p := range extra {
				h1.Peerstore().ClearAddrs(p)
			}
		}
		saved := pm1.PeerInfos(used)
		if err := pm1.SavePeerstore(saved); err != nil {
			t.Fatalf("SavePeerstore: %v", err)
		}
		pm2 := pstoremgr.New(ctx, h2, file)
		loaded := pm2.LoadPeerstore()
		var want []string
		for _, pi := range saved {
			as, _ := peer.AddrInfoToP2pAddrs(&pi)
			for _, a := range as {
				want = append(want, a.String())
			}
		}
		var got []string
		for _, a := range loaded {
			if a == nil {
				t.Fatalf("LoadPeerstore returned a nil address")
			}
			got = append(got, a.String())
		}
		if strings.Join(want, "\n") != strings.Join(got, "\n") {
			t.Fatalf("loaded addresses differ from the saved ones:\nsaved %v\nloaded %v", want, got)
		}
		if err := pm2.ImportPeers(loaded, false, peerstore.PermanentAddrTTL); err != nil {
			t.Fatal(err)
		}
		back := pm2.PeerInfos(used)
		if w, g := infosStr(saved), infosStr(back); w != g {
			t.Fatalf("peers / priority order after reload differ:\nsaved  %s\nreload %s", w, g)
		}
		cls := []string{}
		if resave {
			cls = append(cls, "resave-shorter")
		}
		leg.Case(infosStr(saved)+fmt.Sprintf(" resave=%v", resave), n >= 2 && multi, cls...)
	})
}

func TestPeerstoreFile(t *testing.T) {
	leg := ev.L("peerstore-file", "peerstore files made of valid address lines interleaved with garbage: empty lines, text, lines starting with '/' that are not multiaddresses, well-formed addresses without a peer ID, truncated addresses, lines up to 10 KB, missing trailing newline, CRLF; oracle: no panic, every returned address is non-nil, the valid lines are returned in order, and after ImportPeers every peer named by a valid line has an address; non-trivial = at least one malformed line starting with '/' and one valid line; distinct by file content")
	h := fakes.NewHost(gen.PeerKeys[7], false)
	rapid.Check(t, func(t *rapid.T) {
		file := filepath.Join(workdir, "peerstore-fuzz")
		var lines []string
		var valid []string
		badSlash, nvalid := false, 0
		noPeerLine := false
		validPeers := map[peer.ID]bool{}
		n := rapid.IntRange(0, 10).Draw(t, "nlines")
		for i := 0; i < n; i++ {
			switch rapid.IntRange(0, 6).Draw(t, "kind") {
			case 0, 1:
				p := gen.PeerN(8).Draw(t, "peer")
				a := addrFor(t, p).String() + "/p2p/" + p.Pretty()
				lines = append(lines, a)
				valid = append(valid, a)
				validPeers[p] = true
				nvalid++
			case 2:
				if rapid.Bool().Draw(t, "noPeerID") {
					// a well-formed multiaddress that names no peer: it is
					// loaded, cannot be imported, and must not stand in the
					// way of the lines after it
					lines = append(lines, rapid.SampledFrom([]string{"/ip4/10.0.0.9/tcp/9096", "/dns4/nopeer.example.org/tcp/9096"}).Draw(t, "nopeer"))
					noPeerLine = true
				} else {
					lines = append(lines, "")
				}
			case 3:
				lines = append(lines, rapid.SampledFrom([]string{"# comment", "hello", "ip4/1.2.3.4", " /ip4/1.2.3.4/tcp/1"}).Draw(t, "text"))
			case 4:
				lines = append(lines, rapid.SampledFrom([]string{"/", "/ip4", "/ip4/999.1.1.1/tcp/1", "/ip4/1.2.3.4/tcp", "/nonsense/x", "/ip4/1.2.3.4/tcp/70000", "/p2p/notapeer"}).Draw(t, "bad"))
				badSlash = true
			case 5:
				lines = append(lines, "/"+strings.Repeat("x", rapid.IntRange(100, 10000).Draw(t, "len")))
				badSlash = true
			default:
				lines = append(lines, rapid.StringN(0, 20, 40).Draw(t, "rand"))
			}
		}
		sep := rapid.SampledFrom([]string{"\n", "\n", "\n"}).Draw(t, "sep")
		content := strings.Join(lines, sep)
		if rapid.Bool().Draw(t, "trailing") {
			content += sep
		}
		ioutil.WriteFile(file, []byte(content), 0600)
		pm := pstoremgr.New(ctx, h, file)
		var loaded []ma.Multiaddr
		func() {
			defer func() {
				if r := recover(); r != nil {
					t.Fatalf("LoadPeerstore panicked: %v\nfile: %q", r, content)
				}
			}()
			for _, p := range gen.Peers[:8] {
				h.Peerstore().ClearAddrs(p)
			}
			loaded = pm.LoadPeerstore()
			pm.ImportPeers(loaded, false, time.Hour)
		}()
		// every peer named by a valid line is known to the host afterwards
		for p := range validPeers {
			if p == h.ID() {
				continue
			}
			if len(h.Peerstore().Addrs(p)) == 0 {
				t.Fatalf("peer %s has a valid line in the file but no address was imported for it (line without peer ID present: %v)\nfile: %q", p, noPeerLine, content)
			}
		}
		var got []string
		for _, a := range loaded {
			if a == nil {
				t.Fatalf("LoadPeerstore returned a nil address for an unparsable line instead of skipping it\nfile: %q", content)
			}
			got = append(got, a.String())
		}
		// every valid line, in order (other lines may not add anything)
		if strings.Join(valid, "\n") != strings.Join(got, "\n") {
			// random text lines could by chance be valid multiaddresses: accept supersets in order
			j := 0
			for _, g := range got {
				if j < len(valid) && g == valid[j] {
					j++
				}
			}
			if j != len(valid) {
				t.Fatalf("valid lines were not all returned in order:\nvalid %v\ngot %v\nfile: %q", valid, got, content)
			}
		}
		cls := []string{}
		if noPeerLine {
			cls = append(cls, "line-without-peer-id")
		}
		leg.Case(content, badSlash && nvalid > 0, cls...)
	})
}

var _ = cid.Undef
