package c05

import (
	"context"
	"sync"
	"testing"

	"verifharness/internal/ev"
	"verifharness/internal/fakes"
	"verifharness/internal/gen"
	"verifharness/internal/kf"

	"github.com/ipfs/ipfs-cluster/api"
)

// direct pin held by the daemon: the listing must say pinned and a recover
// round must leave it direct (fixed: S8/S9).
func TestRegressDirectPinRecover(t *testing.T) {
	ctx := context.Background()
	f := fakes.NewTracker(self, 4, 2)
	defer f.Close()
	var wg sync.WaitGroup
	c := gen.Cids[0]
	p := mkPin(c, "local", api.PinModeDirect)
	f.St.Add(ctx, p)
	if err := f.T.Track(ctx, p); err != nil {
		t.Fatal(err)
	}
	if !quiesce(f, &wg, true) {
		t.Fatal("not quiescent")
	}
	for _, pi := range f.T.StatusAll(ctx, api.TrackerStatusUndefined) {
		if pi.Cid.Equals(c) && pi.Status != api.TrackerStatusPinned {
			t.Fatalf("direct pin held by the daemon is listed as %s", pi.Status)
		}
	}
	f.T.RecoverAll(ctx)
	quiesce(f, &wg, true)
	if got := f.D.Get(c); got != api.IPFSPinStatusDirect {
		t.Fatalf("after RecoverAll the daemon holds status %d, want direct", got)
	}
	// error then recover: must be re-issued in direct mode
	f.D.Set(c, api.IPFSPinStatusUnpinned)
	f.T.Recover(ctx, c)
	quiesce(f, &wg, true)
	if got := f.D.Get(c); got != api.IPFSPinStatusDirect {
		t.Fatalf("Recover re-pinned with status %d, want direct (options recorded in the pinset)", got)
	}
}

// Probe of the open finding KFDowngrade.
func TestRegressKnownDowngrade(t *testing.T) {
	if !kf.Open(KFDowngrade) {
		t.Skip("not listed")
	}
	ctx := context.Background()
	f := fakes.NewTracker(self, 4, 1)
	defer f.Close()
	var wg sync.WaitGroup
	c := gen.Cids[0]
	p := mkPin(c, "local", api.PinModeRecursive)
	f.St.Add(ctx, p)
	f.T.Track(ctx, p)
	quiesce(f, &wg, true)
	f.D.Gate = true
	f.St.Rm(ctx, c)
	f.T.Untrack(ctx, c)
	settle(f)
	d := mkPin(c, "local", api.PinModeDirect)
	f.St.Add(ctx, d)
	f.T.Track(ctx, d)
	quiesce(f, &wg, true)
	f.T.RecoverAll(ctx)
	quiesce(f, &wg, true)
	got := f.D.Get(c)
	ev.KnownFinding(KFDowngrade, got != api.IPFSPinStatusDirect, "track(recursive) done; untrack queued; track(direct) cancels the unpin: daemon keeps the recursive pin, the direct pin is refused, status "+f.T.Status(ctx, c).Status.String()+" persists after RecoverAll")
}
