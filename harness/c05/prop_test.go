// Package c05: each peer's IPFS pinset converges to what the shared pinset
// assigns to it.
package c05

import (
	"context"
	"fmt"
	"os"
	"sort"
	"strings"
	"sync"
	"testing"
	"time"

	"verifharness/internal/ev"
	"verifharness/internal/fakes"
	"verifharness/internal/gen"
	"verifharness/internal/kf"

	cid "github.com/ipfs/go-cid"
	"github.com/ipfs/ipfs-cluster/api"
	"github.com/ipfs/ipfs-cluster/pintracker/stateless"
	peer "github.com/libp2p/go-libp2p-core/peer"
	"pgregory.net/rapid"
)

func TestMain(m *testing.M) {
	code := m.Run()
	ev.Flush()
	os.Exit(code)
}

// Known findings.
const (
	KFRecoverOptions = "C05-recover-reissues-default-pin"
	KFDirectListing  = "C05-direct-pins-unexpectedly-unpinned-in-listing"
	KFDedupeContent  = "C05-pending-pin-dedupe-ignores-mode"
	KFDowngrade      = "C05-direct-after-cancelled-unpin-of-recursive"
)

var self, other = gen.Peers[0], gen.Peers[1]

type instr struct {
	kind string // "track" | "untrack"
	loc  string // local | everywhere | remote | meta
	mode api.PinMode
	seq  int
}

func errorClass(s api.TrackerStatus) bool {
	return s == api.TrackerStatusPinError || s == api.TrackerStatusUnpinError || s == api.TrackerStatusClusterError || s == api.TrackerStatusUnexpectedlyUnpinned
}

func cn(c cid.Cid) string {
	for i, u := range gen.Cids {
		if u.Equals(c) {
			return fmt.Sprintf("c%d", i)
		}
	}
	return c.String()
}

func mkPin(c cid.Cid, loc string, mode api.PinMode) *api.Pin {
	p := api.PinWithOpts(c, api.PinOptions{Mode: mode, Name: "n-" + loc})
	switch loc {
	case "local":
		p.ReplicationFactorMin, p.ReplicationFactorMax = 1, 1
		p.Allocations = []peer.ID{self}
	case "everywhere":
		p.ReplicationFactorMin, p.ReplicationFactorMax = -1, -1
	case "remote":
		p.ReplicationFactorMin, p.ReplicationFactorMax = 1, 1
		p.Allocations = []peer.ID{other}
	case "meta":
		p.Type = api.MetaType
		p.Reference = &gen.Cids[9]
	}
	return p
}

const pending = api.TrackerStatusPinQueued | api.TrackerStatusUnpinQueued | api.TrackerStatusPinning | api.TrackerStatusUnpinning

// quiesce releases everything (when open) and waits until nothing is parked,
// no instruction is running and no operation is queued or in progress.
func quiesce(f *fakes.TrackerFixture, running *sync.WaitGroup, open bool) bool {
	deadline := time.Now().Add(20 * time.Second)
	stable := 0
	var last int64 = -1
	for time.Now().Before(deadline) {
		if open {
			f.D.ReleaseAll("ok", true)
		}
		n := len(f.D.ParkedCalls())
		pend := f.T.StatusAll(context.Background(), pending)
		evn := f.D.EventCount()
		if n == 0 && len(pend) == 0 && evn == last {
			stable++
			if stable >= 3 {
				done := make(chan struct{})
				go func() { running.Wait(); close(done) }()
				select {
				case <-done:
					return true
				case <-time.After(5 * time.Millisecond):
					stable = 0
				}
			}
		} else {
			stable = 0
		}
		last = evn
		time.Sleep(300 * time.Microsecond)
	}
	return false
}

// settle waits until the daemon event counter stops moving (keeps replays
// aligned; correctness never depends on it).
func settle(f *fakes.TrackerFixture) {
	last := f.D.EventCount()
	quiet := 0
	for i := 0; i < 200 && quiet < 3; i++ {
		time.Sleep(100 * time.Microsecond)
		if n := f.D.EventCount(); n == last {
			quiet++
		} else {
			quiet, last = 0, n
		}
	}
}

const rule = "state machine over 3 data CIDs and 1 meta CID on one real stateless tracker (queue size 1-4, 1-3 pin workers) talking to a gated model IPFS daemon: track (local / everywhere / remote / meta x recursive / direct, the pinset updated first), retrack (the last track instruction of a CID submitted again), untrack, recover, recoverAll, release of the k-th parked IPFS call with outcome ok or error, releaseAll (ok or all failing), the daemon losing a pin behind the tracker's back; the schedule is part of the generated value; at the end everything is released with a healthy daemon, the quiescent state is judged, then a recover round runs (RecoverAll only, or Recover of each CID only) and the state is judged strictly; non-trivial = an instruction of the opposite type arrives while a call for the same CID is parked, or an injected IPFS error, or a full queue; distinct by action script"

func TestConverge(t *testing.T) {
	leg := ev.L("converge", rule)
	ctx := context.Background()
	rapid.Check(t, func(t *rapid.T) {
		queue := rapid.SampledFrom([]int{1, 1, 2, 3, 4, 4}).Draw(t, "queue")
		workers := rapid.IntRange(1, 3).Draw(t, "workers")
		f := fakes.NewTracker(self, queue, workers)
		defer f.Close()
		f.D.Gate = true
		data := gen.Cids[:3]
		meta := gen.Cids[3]
		last := map[string]*instr{}
		wasRecursive := map[string]bool{}
		unpinFailAfter := map[string]int{} // seq of the last injected unpin failure per cid
		var script []string
		classes := map[string]bool{}
		var running sync.WaitGroup
		var resMu sync.Mutex
		seq := 0
		fail := func(format string, a ...interface{}) {
			t.Fatalf("%s\nqueue=%d workers=%d\nscript: %s\ndaemon calls: %v", fmt.Sprintf(format, a...), queue, workers, strings.Join(script, " ; "), f.D.Calls)
		}
		checkReturn := func(what string, c cid.Cid, err error) {
			if err == nil {
				return
			}
			if err != stateless.ErrFullQueue {
				fail("%s returned an unexpected error: %v", what, err)
			}
			classes["full-queue"] = true
			st := f.T.Status(ctx, c)
			if !errorClass(st.Status) {
				fail("%s could not be queued (%v) but the status of %s is %s, not an error status", what, err, cn(c), st.Status)
			}
		}
		parkedFor := func(c cid.Cid, kind string) bool {
			for _, p := range f.D.ParkedCalls() {
				if p.Cid.Equals(c) && p.Kind == kind {
					return true
				}
			}
			return false
		}

		var trackWith func(t *rapid.T, c cid.Cid, loc string, mode api.PinMode)
		trackWith = func(t *rapid.T, c cid.Cid, loc string, mode api.PinMode) {
			k := c.String()
			// A direct instruction for a CID the daemon holds recursively is
			// not generated: the cluster refuses that re-pin, and when it
			// comes about through unpin + pin it is the open finding
			// KFDowngrade. While the recursive pin has not been carried out
			// (its call is still queued or parked) a direct instruction is
			// legitimate - two peers writing the same CID concurrently under
			// CRDT consensus produce it - and cancel-and-replace must cope.
			if mode == api.PinModeDirect && wasRecursive[k] && f.D.Get(c) == api.IPFSPinStatusRecursive {
				if kf.Open(KFDowngrade) {
					leg.Excl("direct track of a CID the daemon holds recursively (" + KFDowngrade + ")")
				}
				mode = api.PinModeRecursive
			}
			if prev := last[k]; prev != nil && prev.kind == "track" && prev.mode == api.PinModeRecursive && mode == api.PinModeDirect {
				classes["direct-over-pending-recursive"] = true
			}
			if prev := last[k]; prev != nil && prev.kind == "track" && prev.mode != mode && kf.Open(KFDedupeContent) {
				leg.Excl("mode change on re-track (" + KFDedupeContent + ")")
				mode = prev.mode
			}
			if mode == api.PinModeDirect && (kf.Open(KFRecoverOptions) || kf.Open(KFDirectListing)) {
				leg.Excl("direct-mode pins not generated (" + KFRecoverOptions + ", " + KFDirectListing + ")")
				mode = api.PinModeRecursive
			}
			if mode == api.PinModeRecursive {
				wasRecursive[k] = true
			} else {
				classes["direct"] = true
			}
			if parkedFor(c, "unpin") && loc != "remote" {
				classes["nontrivial"] = true
				classes["cancel-in-flight"] = true
			}
			p := mkPin(c, loc, mode)
			if err := f.St.Add(ctx, p); err != nil {
				t.Fatal(err)
			}
			seq++
			last[k] = &instr{"track", loc, mode, seq}
			script = append(script, fmt.Sprintf("track(%s,%s,%s)", cn(c), loc, mode))
			running.Add(1)
			go func() {
				defer running.Done()
				err := f.T.Track(ctx, p)
				resMu.Lock()
				defer resMu.Unlock()
				if err != nil && err != stateless.ErrFullQueue {
					panic(fmt.Sprintf("Track returned %v", err))
				}
				if err == stateless.ErrFullQueue {
					classes["full-queue"] = true
					classes["nontrivial"] = true
				}
			}()
			settle(f)
		}
		t.Repeat(map[string]func(*rapid.T){
			"track": func(t *rapid.T) {
				c := data[rapid.IntRange(0, len(data)-1).Draw(t, "cid")]
				loc := rapid.SampledFrom([]string{"local", "local", "everywhere", "remote"}).Draw(t, "loc")
				mode := rapid.SampledFrom([]api.PinMode{api.PinModeRecursive, api.PinModeRecursive, api.PinModeDirect}).Draw(t, "mode")
				trackWith(t, c, loc, mode)
			},
			"retrack": func(t *rapid.T) {
				// the same pin submitted again (a re-pin with unchanged options
				// reaches the tracker again, and that is how a failed
				// best-effort action gets another chance)
				var cands []cid.Cid
				for _, c := range data {
					if l := last[c.String()]; l != nil && l.kind == "track" {
						cands = append(cands, c)
					}
				}
				if len(cands) == 0 {
					t.Skip("nothing tracked")
				}
				c := cands[rapid.IntRange(0, len(cands)-1).Draw(t, "cid")]
				l := last[c.String()]
				if l.loc == "remote" && unpinFailAfter[c.String()] >= l.seq {
					classes["retrack-remote-after-failed-unpin"] = true
					classes["nontrivial"] = true
				}
				classes["retrack"] = true
				trackWith(t, c, l.loc, l.mode)
			},
			"trackMeta": func(t *rapid.T) {
				p := mkPin(meta, "meta", api.PinModeRecursive)
				f.St.Add(ctx, p)
				seq++
				last[meta.String()] = &instr{"track", "meta", api.PinModeRecursive, seq}
				script = append(script, "track(meta)")
				checkReturn("Track(meta)", meta, f.T.Track(ctx, p))
			},
			"untrack": func(t *rapid.T) {
				c := data[rapid.IntRange(0, len(data)-1).Draw(t, "cid")]
				if parkedFor(c, "pin") {
					classes["nontrivial"] = true
					classes["cancel-in-flight"] = true
				}
				f.St.Rm(ctx, c)
				seq++
				last[c.String()] = &instr{"untrack", "", 0, seq}
				script = append(script, fmt.Sprintf("untrack(%s)", cn(c)))
				err := f.T.Untrack(ctx, c)
				checkReturn("Untrack("+cn(c)+")", c, err)
				if err != nil {
					classes["nontrivial"] = true
				}
				settle(f)
			},
			"recover": func(t *rapid.T) {
				c := data[rapid.IntRange(0, len(data)-1).Draw(t, "cid")]
				script = append(script, fmt.Sprintf("recover(%s)", cn(c)))
				_, err := f.T.Recover(ctx, c)
				if err != nil && err != stateless.ErrFullQueue {
					fail("Recover: %v", err)
				}
				classes["recover"] = true
				settle(f)
			},
			"recoverAll": func(t *rapid.T) {
				script = append(script, "recoverAll")
				_, err := f.T.RecoverAll(ctx)
				if err != nil && err != stateless.ErrFullQueue {
					fail("RecoverAll: %v", err)
				}
				classes["recover"] = true
				settle(f)
			},
			"release": func(t *rapid.T) {
				ps := f.D.ParkedCalls()
				if len(ps) == 0 {
					t.Skip("nothing parked")
				}
				k := rapid.IntRange(0, len(ps)-1).Draw(t, "k")
				outcome := rapid.SampledFrom([]string{"ok", "ok", "fail"}).Draw(t, "outcome")
				pk := f.D.Release(k, outcome)
				script = append(script, fmt.Sprintf("release(%s %s -> %s)", pk.Kind, cn(pk.Cid), outcome))
				if outcome == "fail" {
					classes["nontrivial"] = true
					classes["ipfs-error"] = true
					if pk.Kind == "unpin" {
						unpinFailAfter[pk.Cid.String()] = seq
					}
				}
				settle(f)
			},
			"releaseAll": func(t *rapid.T) {
				n := f.D.ReleaseAll("ok", false)
				script = append(script, fmt.Sprintf("releaseAll(%d)", n))
				settle(f)
			},
			"releaseAllFail": func(t *rapid.T) {
				// the daemon fails everything it has in hand (several failed
				// operations at once)
				ps := f.D.ParkedCalls()
				if len(ps) < 2 {
					t.Skip("fewer than two calls parked")
				}
				for _, pk := range ps {
					if pk.Kind == "unpin" {
						unpinFailAfter[pk.Cid.String()] = seq
					}
				}
				n := f.D.ReleaseAll("fail", false)
				script = append(script, fmt.Sprintf("releaseAllFail(%d)", n))
				classes["nontrivial"] = true
				classes["ipfs-error"] = true
				classes["several-failed-at-once"] = true
				settle(f)
			},
			"daemonLoses": func(t *rapid.T) {
				// the daemon loses a pin behind the tracker's back (manual
				// 'pin rm', repository loss): no operation knows about it
				c := data[rapid.IntRange(0, len(data)-1).Draw(t, "cid")]
				if f.D.Get(c) == api.IPFSPinStatusUnpinned {
					t.Skip("not held")
				}
				f.D.Set(c, api.IPFSPinStatusUnpinned)
				script = append(script, fmt.Sprintf("daemonLoses(%s)", cn(c)))
				classes["lost-behind-the-back"] = true
				settle(f)
			},
		})

		judge := func(phase string, strict bool) {
			for _, c := range data {
				l := last[c.String()]
				if l == nil {
					continue
				}
				got := f.D.Get(c)
				st := f.T.Status(ctx, c)
				if st.Status&pending != 0 {
					fail("%s: %s is %s although the tracker is quiescent", phase, cn(c), st.Status)
				}
				switch {
				case l.kind == "track" && (l.loc == "local" || l.loc == "everywhere"):
					want := api.IPFSPinStatusRecursive
					if l.mode == api.PinModeDirect {
						want = api.IPFSPinStatusDirect
					}
					if got != want {
						if !strict && errorClass(st.Status) {
							classes["ended-in-error-status"] = true
							continue
						}
						fail("%s: last instruction for %s is track(%s,%s) but the daemon holds status %d (want %d) and the tracker reports %s", phase, cn(c), l.loc, l.mode, got, want, st.Status)
					}
				case l.kind == "untrack":
					if got != api.IPFSPinStatusUnpinned {
						if !strict && errorClass(st.Status) {
							classes["ended-in-error-status"] = true
							continue
						}
						fail("%s: last instruction for %s is untrack but the daemon still holds it (status %d) and the tracker reports %s", phase, cn(c), got, st.Status)
					}
				case l.kind == "track" && l.loc == "remote":
					if got != api.IPFSPinStatusUnpinned && unpinFailAfter[c.String()] < l.seq {
						fail("%s: %s moved to another peer, no IPFS error was injected into its local unpin, but the daemon still holds it (status %d); tracker reports %s", phase, cn(c), got, st.Status)
					}
				}
			}
			for _, call := range f.D.Calls {
				if strings.Contains(call, meta.String()) {
					fail("%s: a meta entry was sent to the daemon: %s", phase, call)
				}
			}
		}

		if !quiesce(f, &running, true) {
			fail("the tracker did not become quiescent within 20 s with a healthy daemon (parked=%d pending=%d)", len(f.D.ParkedCalls()), len(f.T.StatusAll(ctx, pending)))
		}
		judge("at quiescence", false)
		// the recover round is either the listing-driven RecoverAll (what the
		// peer runs at start and periodically) or a per-CID Recover of every
		// item (what an operator does); each must be sufficient on its own
		roundForm := rapid.SampledFrom([]string{"all", "all", "each"}).Draw(t, "recoverRound")
		script = append(script, "| recover round ("+roundForm+")")
		// one round must do, unless the queue was too small to take every
		// retry (the call says so with ErrFullQueue): then it is repeated
		// while that is the answer
		rounds := 0
		for i := 0; i < 8; i++ {
			full := false
			rounds++
			if roundForm == "all" {
				if _, err := f.T.RecoverAll(ctx); err == stateless.ErrFullQueue {
					full = true
				} else if err != nil {
					fail("RecoverAll with a healthy daemon: %v", err)
				}
			} else {
				for _, c := range data {
					if _, err := f.T.Recover(ctx, c); err == stateless.ErrFullQueue {
						full = true
					} else if err != nil {
						fail("Recover: %v", err)
					}
				}
			}
			if !quiesce(f, &running, true) {
				fail("the tracker did not become quiescent after the recover round")
			}
			if !full {
				break
			}
		}
		if rounds == 1 {
			classes["single-recover-round"] = true
		}
		judge("after the recover round", true)
		var cl []string
		for k := range classes {
			if k != "nontrivial" {
				cl = append(cl, k)
			}
		}
		sort.Strings(cl)
		cl = append(cl, fmt.Sprintf("queue:%d", queue))
		leg.Case(fmt.Sprintf("q=%d w=%d: %s", queue, workers, strings.Join(script, " ; ")), classes["nontrivial"], cl...)
	})
}
