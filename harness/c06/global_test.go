package c06

import (
	"context"
	"fmt"
	"sort"
	"strings"
	"sync"
	"testing"

	"verifharness/internal/ev"
	"verifharness/internal/fakes"
	"verifharness/internal/gen"

	cid "github.com/ipfs/go-cid"
	"github.com/ipfs/ipfs-cluster/api"
	peer "github.com/libp2p/go-libp2p-core/peer"
	peerstore "github.com/libp2p/go-libp2p-core/peerstore"
	"pgregory.net/rapid"
)

// C06-b: the cluster-wide view. Three real Clusters on loopback TCP hosts
// share a fake consensus (pinset + peerset); each has a scripted tracker
// that answers Status/StatusAll from a per-case table, the way a stateless
// tracker would (every pinset item listed: its own status when allocated
// here, remote otherwise; filtered by Match). One more member may be a peer
// nobody can reach.

type globalRig struct {
	shared *fakes.SharedState
	fx     []*fakes.ClusterFixture
	mu     sync.Mutex
	script map[peer.ID]map[string]api.TrackerStatus // per live peer: cid -> reported status
	names  map[string]string
}

var (
	rigOnce sync.Once
	rig     *globalRig
)

func getRig() *globalRig {
	rigOnce.Do(func() {
		r := &globalRig{shared: fakes.NewSharedState(), script: map[peer.ID]map[string]api.TrackerStatus{}, names: map[string]string{}}
		for i := 0; i < 3; i++ {
			f := fakes.NewCluster(fakes.ClusterOpts{Key: gen.PeerKeys[i], Shared: r.shared, Listen: true})
			id := f.ID
			f.Tracker.StatusFn = func(c cid.Cid) *api.PinInfo {
				r.mu.Lock()
				defer r.mu.Unlock()
				st, ok := r.script[id][c.String()]
				if !ok {
					st = api.TrackerStatusUnpinned
				}
				return &api.PinInfo{Cid: c, Name: r.names[c.String()], Peer: id, PinInfoShort: api.PinInfoShort{PeerName: "verif", Status: st}}
			}
			f.Tracker.StatusAllFn = func(flt api.TrackerStatus) []*api.PinInfo {
				r.mu.Lock()
				defer r.mu.Unlock()
				var out []*api.PinInfo
				for cs, st := range r.script[id] {
					if !st.Match(flt) {
						continue
					}
					c, _ := cid.Decode(cs)
					out = append(out, &api.PinInfo{Cid: c, Name: r.names[cs], Peer: id, PinInfoShort: api.PinInfoShort{PeerName: "verif", Status: st}})
				}
				return out
			}
			r.fx = append(r.fx, f)
		}
		for _, a := range r.fx {
			for _, b := range r.fx {
				if a != b {
					a.Host.Peerstore().AddAddrs(b.ID, b.Host.Addrs(), peerstore.PermanentAddrTTL)
				}
			}
		}
		rig = r
	})
	return rig
}

var allocStatuses = []api.TrackerStatus{
	api.TrackerStatusPinned, api.TrackerStatusPinned, api.TrackerStatusPinError, api.TrackerStatusUnpinError,
	api.TrackerStatusPinning, api.TrackerStatusPinQueued, api.TrackerStatusUnexpectedlyUnpinned, api.TrackerStatusClusterError,
}

const ruleGlobal = "3 real Clusters on loopback hosts over a shared fake consensus, scripted trackers, optionally a 4th member nobody can reach; pinset of 0-4 CIDs (allocated to a drawn subset of the members, or pinned everywhere (optionally still carrying an allocation list), or a meta pin), per allocated live peer a drawn status; the caller is any live member, optionally in follower mode; Cluster.Status(c) for every universe CID and Cluster.StatusAll(f) for a drawn filter; oracle from the statement: one entry per peer, allocated peers carry their own report or cluster_error when unreachable, other members remote, unknown CID unpinned for every member, filtered listing = members' reports matching the filter; non-trivial = a pin allocated to a strict subset of the members or an unreachable member; distinct by case"

func TestGlobalView(t *testing.T) {
	ctx := context.Background()
	leg := ev.L("global-view", ruleGlobal)
	r := getRig()
	ghost := gen.Peers[9]
	rapid.Check(t, func(t *rapid.T) {
		withGhost := rapid.IntRange(0, 2).Draw(t, "ghost") == 0
		members := []peer.ID{r.fx[0].ID, r.fx[1].ID, r.fx[2].ID}
		live := map[peer.ID]bool{members[0]: true, members[1]: true, members[2]: true}
		if withGhost {
			members = append(members, ghost)
		}
		// the order in which consensus lists the members is not fixed (the
		// unreachable one may come first)
		members = rapid.Permutation(members).Draw(t, "memberOrder")
		caller := rapid.IntRange(0, 2).Draw(t, "caller")
		follower := rapid.IntRange(0, 5).Draw(t, "follower") == 0
		nCids := rapid.IntRange(0, 4).Draw(t, "ncids")
		type spec struct {
			c          cid.Cid
			kind       string // subset | everywhere | meta
			alloc      []peer.ID
			name       string
			statusByPe map[peer.ID]api.TrackerStatus
		}
		var specs []spec
		r.shared.Reset()
		r.shared.SetPeers(members)
		r.mu.Lock()
		r.script = map[peer.ID]map[string]api.TrackerStatus{}
		for p := range live {
			r.script[p] = map[string]api.TrackerStatus{}
		}
		r.names = map[string]string{}
		r.mu.Unlock()
		var desc []string
		nontrivial := withGhost
		for i := 0; i < nCids; i++ {
			sp := spec{c: gen.Cids[i], statusByPe: map[peer.ID]api.TrackerStatus{}}
			sp.kind = rapid.SampledFrom([]string{"subset", "subset", "everywhere", "meta"}).Draw(t, "kind")
			sp.name = rapid.SampledFrom([]string{"", "n1", "a b"}).Draw(t, "name")
			pin := api.PinCid(sp.c)
			pin.Name = sp.name
			switch sp.kind {
			case "subset":
				mask := rapid.IntRange(1, (1<<len(members))-1).Draw(t, "allocmask")
				for j, m := range members {
					if mask&(1<<j) != 0 {
						sp.alloc = append(sp.alloc, m)
					}
				}
				pin.Allocations = sp.alloc
				pin.ReplicationFactorMin, pin.ReplicationFactorMax = len(sp.alloc), len(sp.alloc)
				if len(sp.alloc) < len(members) {
					nontrivial = true
				}
			case "everywhere":
				pin.ReplicationFactorMin, pin.ReplicationFactorMax = -1, -1
				sp.alloc = members
				// entries written by older releases, by an import or through the
				// adder may carry a (meaningless) allocation list as well
				if rapid.Bool().Draw(t, "staleAllocs") {
					mask := rapid.IntRange(1, (1<<len(members))-1).Draw(t, "staleMask")
					for j, m := range members {
						if mask&(1<<j) != 0 {
							pin.Allocations = append(pin.Allocations, m)
						}
					}
					if len(pin.Allocations) < len(members) {
						nontrivial = true
					}
				}
			case "meta":
				pin.Type = api.MetaType
				pin.ReplicationFactorMin, pin.ReplicationFactorMax = -1, -1
				metaIsFinite := rapid.Bool().Draw(t, "metaFinite")
				if metaIsFinite {
					pin.ReplicationFactorMin, pin.ReplicationFactorMax = 1, 2
				}
				cd := gen.Cids[11]
				pin.Reference = &cd
				sp.alloc = members
				if metaIsFinite {
					// a meta pin has no allocations: with finite factors the
					// per-CID view has nobody to ask and, by the statement's rule
					// for the cluster-wide view, marks every member remote (the
					// listing still carries each peer's own 'sharded' report)
					sp.alloc = nil
				}
			}
			r.shared.Put(pin)
			inAlloc := map[peer.ID]bool{}
			for _, a := range sp.alloc {
				inAlloc[a] = true
			}
			// (no draws while the rig's lock is held: a draw may abort the case)
			for _, p := range []peer.ID{r.fx[0].ID, r.fx[1].ID, r.fx[2].ID} {
				var st api.TrackerStatus
				switch {
				case sp.kind == "meta":
					st = api.TrackerStatusSharded
				case inAlloc[p]:
					st = rapid.SampledFrom(allocStatuses).Draw(t, "status")
				default:
					st = api.TrackerStatusRemote
				}
				sp.statusByPe[p] = st
			}
			r.mu.Lock()
			r.names[sp.c.String()] = sp.name
			for p, st := range sp.statusByPe {
				r.script[p][sp.c.String()] = st
			}
			r.mu.Unlock()
			desc = append(desc, fmt.Sprintf("%s:%s:%d", sp.kind, sp.name, len(sp.alloc)))
			specs = append(specs, sp)
		}
		f := r.fx[caller]
		f.Cfg.FollowerMode = follower
		defer func() { f.Cfg.FollowerMode = false }()

		expectedPeers := members
		if follower {
			expectedPeers = []peer.ID{f.ID}
		}
		// per-CID view
		for i := 0; i < 5; i++ {
			c := gen.Cids[i]
			g, err := f.C.Status(ctx, c)
			if err != nil {
				t.Fatalf("Status(%s): %v", c, err)
			}
			got := peerMap(t, g)
			var sp *spec
			for k := range specs {
				if specs[k].c.Equals(c) {
					sp = &specs[k]
				}
			}
			want := map[peer.ID]api.TrackerStatus{}
			if sp == nil {
				for _, m := range expectedPeers {
					want[m] = api.TrackerStatusUnpinned
				}
			} else {
				inAlloc := map[peer.ID]bool{}
				for _, a := range sp.alloc {
					inAlloc[a] = true
				}
				for _, m := range expectedPeers {
					switch {
					case follower:
						// a follower only asks itself, whatever the allocations
						want[m] = sp.statusByPe[m]
					case inAlloc[m] && live[m]:
						want[m] = sp.statusByPe[m]
					case inAlloc[m]:
						want[m] = api.TrackerStatusClusterError
					default:
						want[m] = api.TrackerStatusRemote
					}
				}
				if !g.Cid.Equals(c) || g.Name != sp.name {
					t.Fatalf("Status(%s) is labelled cid=%s name=%q, the pin is named %q", c, g.Cid, g.Name, sp.name)
				}
			}
			if d := diffMaps(want, got); d != "" {
				t.Fatalf("Status(%s) at member %d (follower=%v): %s\npinset: %v", c, caller, follower, d, desc)
			}
		}
		// listing
		flt := gen.Filter().Draw(t, "filter")
		lst, err := f.C.StatusAll(ctx, flt)
		if err != nil {
			t.Fatalf("StatusAll: %v", err)
		}
		seen := map[string]bool{}
		gotAll := map[string]map[peer.ID]api.TrackerStatus{}
		for _, g := range lst {
			if seen[g.Cid.String()] {
				t.Fatalf("StatusAll lists %s twice", g.Cid)
			}
			seen[g.Cid.String()] = true
			gotAll[g.Cid.String()] = peerMap(t, g)
		}
		wantAll := map[string]map[peer.ID]api.TrackerStatus{}
		for _, sp := range specs {
			m := map[peer.ID]api.TrackerStatus{}
			for _, p := range expectedPeers {
				if live[p] && sp.statusByPe[p].Match(flt) {
					m[p] = sp.statusByPe[p]
				}
			}
			if len(m) > 0 {
				wantAll[sp.c.String()] = m
			}
		}
		for cs, m := range wantAll {
			// an unreachable member shows as cluster_error on whatever is listed
			for _, p := range expectedPeers {
				if !live[p] {
					m[p] = api.TrackerStatusClusterError
				}
			}
			got, ok := gotAll[cs]
			if !ok {
				t.Fatalf("StatusAll(%s) lacks %s, reported by %d member(s) with a matching status\npinset: %v", flt, cs, len(m), desc)
			}
			if d := diffMaps(m, got); d != "" {
				t.Fatalf("StatusAll(%s) entry %s: %s\npinset: %v", flt, cs, d, desc)
			}
		}
		for cs := range gotAll {
			if _, ok := wantAll[cs]; !ok {
				t.Fatalf("StatusAll(%s) lists %s which no reachable member reports under that filter: %v", flt, cs, gotAll[cs])
			}
		}
		sort.Strings(desc)
		cls := []string{}
		if withGhost {
			cls = append(cls, "unreachable-member")
		}
		if follower {
			cls = append(cls, "follower")
		}
		if flt != api.TrackerStatusUndefined {
			cls = append(cls, "filtered")
		}
		leg.Case(fmt.Sprintf("ghost=%v caller=%d follower=%v filter=%d pins=%s", withGhost, caller, follower, flt, strings.Join(desc, ",")), nontrivial, cls...)
	})
}

func peerMap(t *rapid.T, g *api.GlobalPinInfo) map[peer.ID]api.TrackerStatus {
	out := map[peer.ID]api.TrackerStatus{}
	for k, v := range g.PeerMap {
		p, err := peer.Decode(k)
		if err != nil {
			t.Fatalf("peer map key %q is not a peer ID", k)
		}
		if _, dup := out[p]; dup {
			t.Fatalf("peer %s appears twice in the peer map of %s", p, g.Cid)
		}
		if v == nil {
			t.Fatalf("nil entry for peer %s", p)
		}
		out[p] = v.Status
	}
	return out
}

func diffMaps(want, got map[peer.ID]api.TrackerStatus) string {
	var d []string
	for p, w := range want {
		g, ok := got[p]
		if !ok {
			d = append(d, fmt.Sprintf("peer %s missing (want %s)", peerName(p), w))
		} else if g != w {
			d = append(d, fmt.Sprintf("peer %s reported as %s, want %s", peerName(p), g, w))
		}
	}
	for p, g := range got {
		if _, ok := want[p]; !ok {
			d = append(d, fmt.Sprintf("unexpected peer %s (%s)", peerName(p), g))
		}
	}
	sort.Strings(d)
	return strings.Join(d, "; ")
}

func peerName(p peer.ID) string {
	for i, q := range gen.Peers {
		if q == p {
			return fmt.Sprintf("P%d", i)
		}
	}
	return p.String()
}
