// Package c06: reported pin status is truthful and consistent between its
// two views.
package c06

import (
	"context"
	"fmt"
	"os"
	"sort"
	"strings"
	"sync"
	"testing"
	"time"

	"verifharness/internal/ev"
	"verifharness/internal/fakes"
	"verifharness/internal/gen"

	cid "github.com/ipfs/go-cid"
	"github.com/ipfs/ipfs-cluster/api"
	peer "github.com/libp2p/go-libp2p-core/peer"
	"pgregory.net/rapid"
)

func TestMain(m *testing.M) {
	code := m.Run()
	ev.Flush()
	os.Exit(code)
}

var self, other = gen.Peers[0], gen.Peers[1]

const pending = api.TrackerStatusPinQueued | api.TrackerStatusUnpinQueued | api.TrackerStatusPinning | api.TrackerStatusUnpinning

func class(s api.TrackerStatus) string {
	switch s {
	case api.TrackerStatusPinned:
		return "pinned"
	case api.TrackerStatusRemote:
		return "remote"
	case api.TrackerStatusSharded:
		return "sharded"
	case api.TrackerStatusUnpinned:
		return "unpinned"
	case api.TrackerStatusPinError, api.TrackerStatusUnpinError, api.TrackerStatusClusterError, api.TrackerStatusUnexpectedlyUnpinned:
		return "error"
	case api.TrackerStatusPinQueued, api.TrackerStatusUnpinQueued, api.TrackerStatusPinning, api.TrackerStatusUnpinning:
		return "pending"
	}
	return fmt.Sprintf("other(%d)", s)
}

type item struct {
	loc    string // "" (not in pinset) | local | everywhere | remote | meta
	mode   api.PinMode
	daemon api.IPFSPinStatus // Unpinned | Recursive | Direct | Indirect
	lastOp string            // "" | "pin-failed" | "unpin-failed" | "pin-ok" | "unpin-ok" | "remote-unpin-failed"
}

func (it item) String() string {
	return fmt.Sprintf("{%s %s daemon=%d op=%s}", it.loc, it.mode, it.daemon, it.lastOp)
}

// metaFinite says whether the meta pins of the running case carry finite
// replication factors.
var metaFinite bool

// shardShaped: CIDs whose recursive pins are built as the shard entries of a
// sharded add are (type shard, depth 1: held recursively by the daemon).
var shardShaped = map[string]bool{}

func mkPin(c cid.Cid, loc string, mode api.PinMode) *api.Pin {
	p := api.PinWithOpts(c, api.PinOptions{Mode: mode, Name: "n-" + loc})
	if shardShaped[c.String()] && mode == api.PinModeRecursive && (loc == "local" || loc == "everywhere") {
		p.Type = api.ShardType
		p.MaxDepth = 1
		p.Reference = &gen.Cids[9]
	}
	switch loc {
	case "local":
		p.ReplicationFactorMin, p.ReplicationFactorMax = 1, 1
		p.Allocations = []peer.ID{self}
	case "everywhere":
		p.ReplicationFactorMin, p.ReplicationFactorMax = -1, -1
	case "remote":
		p.ReplicationFactorMin, p.ReplicationFactorMax = 1, 1
		p.Allocations = []peer.ID{other}
	case "meta":
		// a meta pin carries the user's replication factors (everywhere, or
		// a finite pair as after 'add --shard --replication-min 1') and never
		// any allocations
		p.Type = api.MetaType
		p.Reference = &gen.Cids[9]
		if metaFinite {
			p.ReplicationFactorMin, p.ReplicationFactorMax = 1, 2
		} else {
			p.ReplicationFactorMin, p.ReplicationFactorMax = -1, -1
		}
	}
	return p
}

func waitIdle(f *fakes.TrackerFixture) bool {
	deadline := time.Now().Add(20 * time.Second)
	stable := 0
	var last int64 = -1
	for time.Now().Before(deadline) {
		pend := f.T.StatusAll(context.Background(), pending)
		evn := f.D.EventCount()
		if len(pend) == 0 && evn == last {
			stable++
			if stable >= 3 {
				return true
			}
		} else {
			stable = 0
		}
		last = evn
		time.Sleep(200 * time.Microsecond)
	}
	return false
}

const rule = "direct construction on one real stateless tracker: per CID (5 + 1 extra) a pinset entry (absent, local, everywhere, remote, meta; recursive, direct, or shaped like the shard entry of a sharded add: type shard, depth 1), a daemon entry (absent, recursive, direct, indirect) and an optional last operation produced by really running one track/untrack against a daemon scripted to fail or succeed for that CID, or (one case in three) a pin refused because the one-slot operation queue was full; then every status filter drawn from {undefined, each single status, the two composites, random unions}; oracle: Status(c) and the listing entry agree at class level, both agree with the facts, and a filtered listing equals the unfiltered listing restricted to the filter; non-trivial = at least one direct pin or failed last operation, and a filter other than 'undefined'; distinct by canonical rendering"

func TestLocalViews(t *testing.T) {
	leg := ev.L("local-views", rule)
	ctx := context.Background()
	cids := gen.Cids[:6]
	rapid.Check(t, func(t *rapid.T) {
		// one case in three runs on a tracker with a queue of one slot and one
		// worker, kept busy by two filler pins while the items' operations
		// arrive: those meant to hit the full queue are refused with
		// ErrFullQueue, which is a failed last operation
		metaFinite = rapid.Bool().Draw(t, "metaFinite")
		saturate := rapid.IntRange(0, 2).Draw(t, "saturate") == 0
		f := fakes.NewTracker(self, 100, 2)
		if saturate {
			f = fakes.NewTracker(self, 1, 1)
		}
		defer f.Close()
		var fullQueue []cid.Cid
		if saturate {
			f.D.Gate = true
			for _, fc := range []cid.Cid{gen.Cids[10], gen.Cids[11]} {
				p := mkPin(fc, "local", api.PinModeRecursive)
				f.St.Add(ctx, p)
				if err := f.T.Track(ctx, p); err != nil {
					t.Fatalf("harness: filler pin refused: %v", err)
				}
				// the first filler must be picked up by the worker before the
				// second can take the queue slot
				for w := 0; len(f.D.ParkedCalls()) == 0 && w < 20000; w++ {
					time.Sleep(100 * time.Microsecond)
				}
			}
		}
		items := map[string]*item{}
		failPin, failUnpin := map[string]bool{}, map[string]bool{}
		var failMu sync.Mutex // the tracker's workers read while the script writes
		f.D.FailFor = func(kind string, c cid.Cid) bool {
			failMu.Lock()
			defer failMu.Unlock()
			if kind == "pin" {
				return failPin[c.String()]
			}
			return failUnpin[c.String()]
		}
		var desc []string
		for i, c := range cids {
			it := &item{daemon: api.IPFSPinStatusUnpinned}
			it.loc = rapid.SampledFrom([]string{"", "", "local", "local", "everywhere", "remote", "meta"}).Draw(t, "loc")
			it.mode = rapid.SampledFrom([]api.PinMode{api.PinModeRecursive, api.PinModeRecursive, api.PinModeDirect}).Draw(t, "mode")
			shardShaped[c.String()] = rapid.IntRange(0, 3).Draw(t, "shardShaped") == 0
			if it.loc == "meta" {
				it.mode = api.PinModeRecursive
			}
			op := rapid.SampledFrom([]string{"", "", "", "fail", "ok"}).Draw(t, "op")
			k := c.String()
			if saturate {
				// while the queue is saturated the only operation that can be
				// run to completion is one that is refused
				op = ""
				if (it.loc == "local" || it.loc == "everywhere") && rapid.Bool().Draw(t, "full") {
					p := mkPin(c, it.loc, it.mode)
					f.St.Add(ctx, p)
					if err := f.T.Track(ctx, p); err == nil {
						t.Fatalf("harness: the queue was expected to be full for %s", c)
					}
					it.lastOp = "pin-failed"
					fullQueue = append(fullQueue, c)
				}
			}
			// last operation: really run it
			switch {
			case op == "" || it.loc == "meta":
			case it.loc == "local" || it.loc == "everywhere":
				p := mkPin(c, it.loc, it.mode)
				f.St.Add(ctx, p)
				failMu.Lock()
				failPin[k] = op == "fail"
				failMu.Unlock()
				if err := f.T.Track(ctx, p); err != nil {
					t.Fatal(err)
				}
				it.lastOp = "pin-" + map[string]string{"fail": "failed", "ok": "ok"}[op]
			case it.loc == "remote":
				p := mkPin(c, it.loc, it.mode)
				f.St.Add(ctx, p)
				failMu.Lock()
				failUnpin[k] = op == "fail"
				failMu.Unlock()
				f.T.Track(ctx, p)
				if op == "fail" {
					it.lastOp = "remote-unpin-failed"
				}
			case it.loc == "":
				failMu.Lock()
				failUnpin[k] = op == "fail"
				failMu.Unlock()
				f.T.Untrack(ctx, c)
				it.lastOp = "unpin-" + map[string]string{"fail": "failed", "ok": "ok"}[op]
			}
			items[k] = it
			_ = i
		}
		if saturate {
			f.D.ReleaseAll("ok", true)
		}
		if !waitIdle(f) {
			if len(fullQueue) > 0 {
				var still []string
				for _, pi := range f.T.StatusAll(ctx, pending) {
					still = append(still, fmt.Sprintf("%s=%s", pi.Cid, pi.Status))
				}
				t.Fatalf("operations are still reported as pending after everything was released; %d pins had been refused with a full queue: %v", len(fullQueue), still)
			}
			t.Fatalf("tracker did not become idle")
		}
		// now set the facts: pinset and daemon table
		for _, c := range cids {
			it := items[c.String()]
			if it.loc != "" {
				f.St.Add(ctx, mkPin(c, it.loc, it.mode))
			}
			it.daemon = rapid.SampledFrom([]api.IPFSPinStatus{api.IPFSPinStatusUnpinned, api.IPFSPinStatusRecursive, api.IPFSPinStatusRecursive, api.IPFSPinStatusDirect, api.IPFSPinStatusIndirect}).Draw(t, "daemon")
			if it.lastOp == "pin-ok" || it.lastOp == "unpin-ok" {
				// keep what the successful operation produced in half of the cases
				if rapid.Bool().Draw(t, "keep") {
					it.daemon = f.D.Get(c)
				}
			}
			f.D.Set(c, it.daemon)
			desc = append(desc, it.String())
		}
		extra := gen.Cids[7]
		f.D.Set(extra, rapid.SampledFrom([]api.IPFSPinStatus{api.IPFSPinStatusRecursive, api.IPFSPinStatusDirect, api.IPFSPinStatusIndirect}).Draw(t, "extra"))

		all := f.T.StatusAll(ctx, api.TrackerStatusUndefined)
		listing := map[string]api.TrackerStatus{}
		for _, pi := range all {
			if _, dup := listing[pi.Cid.String()]; dup {
				t.Fatalf("listing has two entries for %s\nitems: %v", pi.Cid, desc)
			}
			listing[pi.Cid.String()] = pi.Status
		}
		special := false
		for _, c := range cids {
			it := items[c.String()]
			st := f.T.Status(ctx, c).Status
			ls, inList := listing[c.String()]
			lsClass := "unpinned"
			if inList {
				lsClass = class(ls)
			}
			if class(st) != lsClass {
				t.Fatalf("views disagree for %s: Status says %s, the listing says %s (listed=%v)\nitem: %s", c, st, ls, inList, it)
			}
			if class(st) == "pending" {
				t.Fatalf("%s is %s on a quiescent tracker\nitem: %s", c, st, it)
			}
			if it.mode == api.PinModeDirect && (it.loc == "local" || it.loc == "everywhere") || strings.HasSuffix(it.lastOp, "failed") {
				special = true
			}
			// truth
			want := ""
			switch {
			case it.loc == "meta":
				want = "sharded"
			case it.loc == "remote":
				want = "remote"
			case it.loc == "" && it.lastOp == "unpin-failed":
				want = "error"
			case it.loc == "":
				want = "unpinned"
			case it.lastOp == "pin-failed":
				want = "error"
			default: // local or everywhere, no failed operation
				exact := (it.mode == api.PinModeRecursive && it.daemon == api.IPFSPinStatusRecursive) || (it.mode == api.PinModeDirect && it.daemon == api.IPFSPinStatusDirect)
				absent := it.daemon == api.IPFSPinStatusUnpinned || it.daemon == api.IPFSPinStatusIndirect
				_ = absent
				if exact {
					want = "pinned"
				} else {
					// absent, only indirectly held, or held in the other mode:
					// IPFS does not hold the expected pin
					want = "error"
				}
			}
			if want != "" && class(st) != want {
				t.Fatalf("status of %s is %s (class %s), the facts say %s\nitem: %s", c, st, class(st), want, it)
			}
		}
		// filter law
		nf := rapid.IntRange(1, 4).Draw(t, "nfilters")
		nontrivialFilter := false
		for i := 0; i < nf; i++ {
			flt := gen.Filter().Draw(t, "filter")
			if flt != api.TrackerStatusUndefined {
				nontrivialFilter = true
			}
			var want, got []string
			for _, pi := range all {
				if pi.Status.Match(flt) {
					want = append(want, fmt.Sprintf("%s=%s", pi.Cid, pi.Status))
				}
			}
			for _, pi := range f.T.StatusAll(ctx, flt) {
				got = append(got, fmt.Sprintf("%s=%s", pi.Cid, pi.Status))
			}
			sort.Strings(want)
			sort.Strings(got)
			if strings.Join(want, ",") != strings.Join(got, ",") {
				t.Fatalf("StatusAll(filter %q) = %v, but the unfiltered listing restricted to the filter is %v\nitems: %v", flt.String(), got, want, desc)
			}
		}
		cls := []string{}
		if len(fullQueue) > 0 {
			cls = append(cls, "full-queue")
		}
		leg.Case(strings.Join(desc, " "), special && nontrivialFilter, cls...)
	})
}

// Regression: an item recorded as recursive but held by IPFS only as a
// direct pin (and the reverse) was listed as pinned by StatusAll while
// Status reported pin_error (fixed in /repo).
func TestRegressModeMismatchListing(t *testing.T) {
	ctx := context.Background()
	for _, tc := range []struct {
		mode api.PinMode
		held api.IPFSPinStatus
	}{{api.PinModeRecursive, api.IPFSPinStatusDirect}, {api.PinModeDirect, api.IPFSPinStatusRecursive}} {
		f := fakes.NewTracker(self, 10, 1)
		c := gen.Cids[0]
		f.St.Add(ctx, mkPin(c, "local", tc.mode))
		f.D.Set(c, tc.held)
		st := f.T.Status(ctx, c).Status
		var ls api.TrackerStatus
		for _, pi := range f.T.StatusAll(ctx, api.TrackerStatusUndefined) {
			if pi.Cid.Equals(c) {
				ls = pi.Status
			}
		}
		f.Close()
		if class(st) != "error" || class(ls) != "error" {
			t.Fatalf("pin recorded as %s, IPFS holds status %d: Status says %s, the listing says %s; both must be error statuses", tc.mode, tc.held, st, ls)
		}
	}
}
