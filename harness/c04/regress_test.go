package c04

import (
	"context"
	"testing"

	"verifharness/internal/gen"

	"github.com/ipfs/ipfs-cluster/api"
)

func resetFx() {
	fx.S.Reset()
	fx.S.SetPeers(members)
	fx.Cfg.FollowerMode = false
	fx.Cfg.ReplicationFactorMin, fx.Cfg.ReplicationFactorMax = -1, -1
}

func TestRegressPinUpdateFollower(t *testing.T) {
	resetFx()
	ctx := context.Background()
	if _, err := fx.C.Pin(ctx, gen.Cids[0], api.PinOptions{}); err != nil {
		t.Fatal(err)
	}
	fx.Cfg.FollowerMode = true
	defer func() { fx.Cfg.FollowerMode = false }()
	if _, err := fx.C.PinUpdate(ctx, gen.Cids[0], gen.Cids[1], api.PinOptions{}); err == nil {
		t.Fatal("PinUpdate succeeded in follower mode")
	}
	if _, err := fx.C.PinGet(ctx, gen.Cids[1]); err == nil {
		t.Fatal("PinUpdate in follower mode changed the pinset")
	}
}

func TestRegressPinUpdateOntoMeta(t *testing.T) {
	resetFx()
	ctx := context.Background()
	if _, err := fx.C.Pin(ctx, gen.Cids[0], api.PinOptions{}); err != nil {
		t.Fatal(err)
	}
	s := shardSets[0]
	meta := api.PinCid(s.meta)
	meta.Type = api.MetaType
	meta.Reference = &s.dag
	fx.S.Put(meta)
	if _, err := fx.C.PinUpdate(ctx, gen.Cids[0], s.meta, api.PinOptions{}); err == nil {
		t.Fatal("PinUpdate onto a meta pin (different pin type) succeeded")
	}
	got, err := fx.C.PinGet(ctx, s.meta)
	if err != nil || got.Type != api.MetaType {
		t.Fatalf("meta entry was overwritten: %v %v", got, err)
	}
}

func TestRegressMetadataKeyRemoved(t *testing.T) {
	resetFx()
	ctx := context.Background()
	if _, err := fx.C.Pin(ctx, gen.Cids[0], api.PinOptions{Metadata: map[string]string{"k1": "v", "k2": "w"}}); err != nil {
		t.Fatal(err)
	}
	if _, err := fx.C.Pin(ctx, gen.Cids[0], api.PinOptions{Metadata: map[string]string{"k1": "v"}}); err != nil {
		t.Fatal(err)
	}
	got, _ := fx.C.PinGet(ctx, gen.Cids[0])
	if _, ok := got.Metadata["k2"]; ok {
		t.Fatalf("re-pin with a metadata key removed did not store the change: %v", got.Metadata)
	}
}
