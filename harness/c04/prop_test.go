// Package c04: pin, unpin and update change the pinset exactly as requested,
// or not at all.
package c04

import (
	"context"
	"fmt"
	"os"
	"sort"
	"strings"
	"testing"
	"time"

	"verifharness/internal/cmpx"
	"verifharness/internal/ev"
	"verifharness/internal/fakes"
	"verifharness/internal/gen"
	"verifharness/internal/kf"

	cid "github.com/ipfs/go-cid"
	cbor "github.com/ipfs/go-ipld-cbor"
	ipfscluster "github.com/ipfs/ipfs-cluster"
	"github.com/ipfs/ipfs-cluster/api"
	peer "github.com/libp2p/go-libp2p-core/peer"
	mh "github.com/multiformats/go-multihash"
	"pgregory.net/rapid"
)

var fx *fakes.ClusterFixture

// members of the cluster in every case; all healthy.
var members = gen.Peers[:5]

// shardSet is a pre-computed sharded upload: meta root, cluster DAG, shards.
type shardSet struct {
	meta   cid.Cid
	dag    cid.Cid
	shards []cid.Cid
}

var shardSets []shardSet

// universe of CIDs the actions draw from.
var universe []cid.Cid

func mkDag(shards []cid.Cid) (cid.Cid, []byte) {
	obj := map[string]cid.Cid{}
	for i, s := range shards {
		obj[fmt.Sprintf("%d", i)] = s
	}
	n, err := cbor.WrapObject(obj, mh.SHA2_256, -1)
	if err != nil {
		panic(err)
	}
	return n.Cid(), n.RawData()
}

func TestMain(m *testing.M) {
	fx = fakes.NewCluster(fakes.ClusterOpts{RealMonitor: true})
	for _, p := range members {
		mt := &api.Metric{Name: "boot", Peer: p, Value: "5", Valid: true, Expire: time.Now().Add(10 * time.Hour).UnixNano()}
		fx.RealMon.LogMetric(context.Background(), mt)
	}
	fx.S.SetPeers(members)
	for _, ss := range [][]cid.Cid{{gen.Cids[4], gen.Cids[7], gen.Cids[8]}, {gen.Cids[5], gen.Cids[10]}} {
		d, raw := mkDag(ss[1:])
		fx.IPFS.Blocks[d.String()] = raw
		shardSets = append(shardSets, shardSet{meta: ss[0], dag: d, shards: ss[1:]})
	}
	universe = append(universe, gen.Cids[:4]...)
	for _, s := range shardSets {
		universe = append(universe, s.meta, s.dag)
		universe = append(universe, s.shards...)
	}
	for i, c := range universe {
		fx.IPFS.Paths[fmt.Sprintf("/ipfs/%s/sub dir/f?x#y", c)] = universe[(i+1)%len(universe)]
		fx.IPFS.Paths[fmt.Sprintf("/ipns/example.org/%d", i)] = c
	}
	code := m.Run()
	ev.Flush()
	os.Exit(code)
}

// Known findings (open while listed in known_findings.json).
const (
	KFUpdateFollower = "C04-pinupdate-no-follower-guard"
	KFUpdateChecks   = "C04-pinupdate-skips-type-and-mode-checks"
)

func cname(c cid.Cid) string {
	for i, u := range universe {
		if u.Equals(c) {
			return fmt.Sprintf("c%d", i)
		}
	}
	return c.String()
}

var norm = cmpx.Norm{DropUserAllocs: true, ExpirySeconds: true, ModeFromDepth: true, SortAllocs: true}

// model of the pinset.
type model struct {
	pins     map[string]*api.Pin
	defMin   int
	defMax   int
	follower bool
}

func (m *model) render() string {
	var keys []string
	for k := range m.pins {
		keys = append(keys, k)
	}
	sort.Strings(keys)
	var sb strings.Builder
	for _, k := range keys {
		sb.WriteString(cmpx.PinStr(m.pins[k], norm))
		sb.WriteString("\n")
	}
	return sb.String()
}

func renderReal() string {
	pins, err := fx.C.Pins(context.Background())
	if err != nil {
		panic(err)
	}
	sort.Slice(pins, func(i, j int) bool { return pins[i].Cid.String() < pins[j].Cid.String() })
	var sb strings.Builder
	for _, p := range pins {
		sb.WriteString(cmpx.PinStr(p, norm))
		sb.WriteString("\n")
	}
	return sb.String()
}

func validFactors(min, max int) bool {
	return min != 0 && max != 0 && min <= max && min >= -1 && max >= -1 && (min == -1) == (max == -1)
}

func isMember(p peer.ID) bool {
	for _, q := range members {
		if q == p {
			return true
		}
	}
	return false
}

func peerSetStr(ps []peer.ID) string {
	s := cmpx.NormPin(&api.Pin{Allocations: ps}, cmpx.Norm{SortAllocs: true}).Allocations
	return cmpx.Canon(s)
}

// expectation for one call
type expect struct {
	refuse      string   // non-empty: must fail and leave the pinset unchanged
	refuseKF    string   // the refusal is subject to this known finding
	stored      *api.Pin // expected entry (allocations judged separately)
	allocsEqual []peer.ID
	allocsMode  string // "equal" | "valid" | "empty" | "any-of-equal-or-valid"
	cur         []peer.ID
	prio        []peer.ID
	removed     []cid.Cid
	logPins     int
	logUnpins   int
}

func optsIdentical(req *api.Pin, ex *api.Pin) bool {
	a := cmpx.NormOpts(req.PinOptions, cmpx.Norm{DropUserAllocs: true})
	b := cmpx.NormOpts(ex.PinOptions, cmpx.Norm{DropUserAllocs: true})
	a.PinUpdate, b.PinUpdate = cid.Undef, cid.Undef
	sort.Slice(a.Origins, func(i, j int) bool { return a.Origins[i].String() < a.Origins[j].String() })
	sort.Slice(b.Origins, func(i, j int) bool { return b.Origins[i].String() < b.Origins[j].String() })
	return cmpx.Canon(a) == cmpx.Canon(b) && len(req.UserAllocations) == 0
}

// sameOptions: every pin option equal (user allocations and origins as sets).
func sameOptions(a, b *api.Pin) bool {
	x, y := cmpx.NormOpts(a.PinOptions, cmpx.Norm{}), cmpx.NormOpts(b.PinOptions, cmpx.Norm{})
	x.PinUpdate, y.PinUpdate = cid.Undef, cid.Undef
	for _, o := range []*api.PinOptions{&x, &y} {
		o := o
		sort.Slice(o.Origins, func(i, j int) bool { return o.Origins[i].String() < o.Origins[j].String() })
		sort.Slice(o.UserAllocations, func(i, j int) bool { return o.UserAllocations[i] < o.UserAllocations[j] })
	}
	return cmpx.Canon(x) == cmpx.Canon(y)
}

// expectPin computes what a pin request must do (statement of C04).
func (m *model) expectPin(req *api.Pin, now time.Time) expect {
	if m.follower {
		return expect{refuse: "follower mode"}
	}
	if req.PinUpdate.Defined() && !req.PinUpdate.Equals(req.Cid) {
		return m.expectUpdate(req.PinUpdate, req.Cid, req.PinOptions, now)
	}
	p := fakes.CopyPin(req)
	if p.ReplicationFactorMin == 0 {
		p.ReplicationFactorMin = m.defMin
	}
	if p.ReplicationFactorMax == 0 {
		p.ReplicationFactorMax = m.defMax
	}
	if !validFactors(p.ReplicationFactorMin, p.ReplicationFactorMax) {
		return expect{refuse: "invalid replication factors"}
	}
	if !p.ExpireAt.IsZero() && p.ExpireAt.Before(now) {
		return expect{refuse: "expiry in the past"}
	}
	ex := m.pins[p.Cid.String()]
	if ex != nil {
		if ex.Type != p.Type {
			return expect{refuse: "different pin type"}
		}
		if ex.MaxDepth != 0 && p.Mode == api.PinModeDirect {
			// stored recursive (any depth but 0), requested direct
			return expect{refuse: "recursive downgraded to direct"}
		}
	}
	e := expect{stored: p, logPins: 1}
	if ex != nil {
		e.cur = ex.Allocations
	}
	e.prio = req.UserAllocations
	switch {
	case p.Type == api.MetaType:
		e.allocsMode = "empty"
	case ex != nil && p.Type == api.DataType && optsIdentical(p, ex) && p.ExpireAt.Nanosecond() == 0:
		e.allocsMode, e.allocsEqual = "equal", ex.Allocations
	case p.IsPinEverywhere():
		e.allocsMode = "empty"
	case len(req.Allocations) > 0:
		// preset by the adder: respected, unless the identical-options shortcut applied
		if ex != nil {
			e.allocsMode = "any"
		} else {
			e.allocsMode, e.allocsEqual = "equal", req.Allocations
		}
	case ex != nil && p.Type != api.DataType:
		e.allocsMode = "any"
	case ex != nil && p.ExpireAt.Nanosecond() != 0:
		e.allocsMode = "valid"
	default:
		e.allocsMode = "valid"
	}
	return e
}

func (m *model) expectUpdate(from, to cid.Cid, opts api.PinOptions, now time.Time) expect {
	if m.follower {
		return expect{refuse: "follower mode", refuseKF: KFUpdateFollower}
	}
	src := m.pins[from.String()]
	if src == nil {
		return expect{refuse: "update of a CID that is not pinned"}
	}
	if src.Type != api.DataType {
		return expect{refuse: "source is not a data pin"}
	}
	if ex := m.pins[to.String()]; ex != nil && !to.Equals(from) {
		if ex.Type != src.Type {
			return expect{refuse: "different pin type", refuseKF: KFUpdateChecks}
		}
		if ex.MaxDepth != 0 && src.MaxDepth == 0 {
			return expect{refuse: "recursive downgraded to direct", refuseKF: KFUpdateChecks}
		}
	}
	p := fakes.CopyPin(src)
	p.Cid = to
	p.PinUpdate = from
	if opts.Name != "" {
		p.Name = opts.Name
	}
	if !opts.ExpireAt.IsZero() && opts.ExpireAt.After(now) {
		p.ExpireAt = opts.ExpireAt
	}
	return expect{stored: p, allocsMode: "equal", allocsEqual: src.Allocations, logPins: 1}
}

func (m *model) expectUnpin(c cid.Cid) expect {
	if m.follower {
		return expect{refuse: "follower mode"}
	}
	ex := m.pins[c.String()]
	if ex == nil {
		return expect{refuse: "unpin of a CID that is not pinned"}
	}
	switch ex.Type {
	case api.DataType:
		return expect{removed: []cid.Cid{c}, logUnpins: 1}
	case api.MetaType:
		e := expect{removed: []cid.Cid{c}}
		for _, s := range shardSets {
			if s.meta.Equals(c) && ex.Reference != nil && ex.Reference.Equals(s.dag) && m.pins[s.dag.String()] != nil {
				e.removed = append(e.removed, s.dag)
				e.removed = append(e.removed, s.shards...)
			}
		}
		if len(e.removed) == 1 {
			// meta entry whose cluster DAG is not in the pinset: the statement does not say
			return expect{refuse: "?"}
		}
		e.logUnpins = len(e.removed)
		return e
	default:
		return expect{refuse: "shard and cluster-DAG entries are removed through their root"}
	}
}

func checkAllocs(t *rapid.T, what string, e expect, got []peer.ID, p *api.Pin) {
	switch e.allocsMode {
	case "empty":
		if len(got) != 0 {
			t.Fatalf("%s: allocations must be empty, got %s", what, peerSetStr(got))
		}
	case "equal":
		if peerSetStr(got) != peerSetStr(e.allocsEqual) {
			t.Fatalf("%s: allocations must be %s, got %s", what, peerSetStr(e.allocsEqual), peerSetStr(got))
		}
	case "valid":
		seen := map[peer.ID]bool{}
		for _, a := range got {
			if seen[a] {
				t.Fatalf("%s: allocation lists a peer twice: %s", what, peerSetStr(got))
			}
			seen[a] = true
		}
		min, max := p.ReplicationFactorMin, p.ReplicationFactorMax
		nh := 0
		for _, a := range got {
			if isMember(a) {
				nh++
			} else if !containsPeer(e.cur, a) {
				t.Fatalf("%s: non-member %s added to the allocations %s", what, a, peerSetStr(got))
			}
		}
		if nh < min || nh > max {
			t.Fatalf("%s: %d healthy holders in %s, want %d..%d", what, nh, peerSetStr(got), min, max)
		}
		curH := 0
		for _, a := range e.cur {
			if isMember(a) {
				curH++
			}
		}
		if curH <= max {
			for _, a := range e.cur {
				if isMember(a) && !seen[a] {
					t.Fatalf("%s: healthy current holder dropped: had %s, now %s", what, peerSetStr(e.cur), peerSetStr(got))
				}
			}
		}
		// requested peers first
		for _, r := range e.prio {
			if isMember(r) && !seen[r] && !containsPeer(e.cur, r) {
				for _, a := range got {
					if !containsPeer(e.cur, a) && !containsPeer(e.prio, a) {
						t.Fatalf("%s: requested member left out while a non-requested peer was added: %s", what, peerSetStr(got))
					}
				}
			}
		}
	}
}

func containsPeer(l []peer.ID, p peer.ID) bool {
	for _, q := range l {
		if q == p {
			return true
		}
	}
	return false
}

// optCfg for requests: no unix-0 expiry and no empty metadata key (both are
// documented as "unset"/ignored), origins per known findings.
func reqCfg() gen.OptCfg {
	c := gen.Full
	c.UnixZero = false
	c.EmptyMetaKey = false
	c.NPeers = 7
	c.PinUpdate = false
	return c
}

func drawCid(t *rapid.T, label string) cid.Cid {
	return universe[rapid.IntRange(0, len(universe)-1).Draw(t, label)]
}

// drawOpts draws options: fresh ones or a delta of the stored options.
func drawOpts(t *rapid.T, m *model, c cid.Cid) (api.PinOptions, string) {
	ex := m.pins[c.String()]
	if ex == nil || rapid.IntRange(0, 3).Draw(t, "fresh") == 0 {
		o := gen.Options(reqCfg()).Draw(t, "opts")
		return o, "fresh"
	}
	o := cmpx.NormOpts(ex.PinOptions, cmpx.Norm{})
	d := rapid.SampledFrom([]string{"same", "same", "name", "mode", "rmin", "rmax", "factors0", "meta-add", "meta-rm", "meta-val", "origin-add", "origin-rm", "ua", "expire-set", "expire-clear", "expire-past", "expire-nanos", "shardsize", "badfactors"}).Draw(t, "delta")
	switch d {
	case "name":
		o.Name = gen.Name().Draw(t, "name")
	case "mode":
		o.Mode = 1 - o.Mode
	case "rmin":
		o.ReplicationFactorMin = rapid.IntRange(1, 4).Draw(t, "rmin")
	case "rmax":
		o.ReplicationFactorMax = rapid.IntRange(1, 5).Draw(t, "rmax")
	case "factors0":
		o.ReplicationFactorMin, o.ReplicationFactorMax = 0, 0
	case "badfactors":
		x := rapid.SampledFrom([][2]int{{3, 2}, {-1, 2}, {2, -1}, {-2, -2}, {0, -1}}).Draw(t, "bad")
		o.ReplicationFactorMin, o.ReplicationFactorMax = x[0], x[1]
	case "meta-add":
		if o.Metadata == nil {
			o.Metadata = map[string]string{}
		}
		o.Metadata[rapid.SampledFrom([]string{"k1", "k 2", "ключ", "new"}).Draw(t, "mk")] = rapid.SampledFrom([]string{"", "v", "z"}).Draw(t, "mv")
	case "meta-rm":
		for _, k := range []string{"k1", "k 2", "ключ", "new"} {
			if _, ok := o.Metadata[k]; ok {
				delete(o.Metadata, k)
				break
			}
		}
	case "meta-val":
		for _, k := range []string{"k1", "k 2", "ключ", "new"} {
			if _, ok := o.Metadata[k]; ok {
				o.Metadata[k] = rapid.SampledFrom([]string{"", "v", "changed"}).Draw(t, "mv")
				break
			}
		}
	case "origin-add":
		o.Origins = append(o.Origins, gen.Origin().Draw(t, "origin"))
	case "origin-rm":
		if len(o.Origins) > 0 {
			o.Origins = o.Origins[1:]
		}
	case "ua":
		o.UserAllocations = gen.PeerSubset(7, 3).Draw(t, "ua")
	case "expire-set":
		o.ExpireAt = gen.Base.Add(time.Duration(rapid.IntRange(0, 3).Draw(t, "h")) * time.Hour)
	case "expire-clear":
		o.ExpireAt = time.Time{}
	case "expire-past":
		// an hour ago, a second ago, or the oldest instant the REST API can
		// express (1970-01-01T00:00:00Z): all before now
		switch rapid.IntRange(0, 2).Draw(t, "past") {
		case 0:
			o.ExpireAt = time.Now().Add(-time.Hour)
		case 1:
			o.ExpireAt = time.Now().Add(-time.Second)
		case 2:
			o.ExpireAt = time.Unix(0, 0)
		}
	case "expire-nanos":
		o.ExpireAt = gen.Base.Add(time.Duration(rapid.IntRange(1, 999999999).Draw(t, "ns")))
	case "shardsize":
		o.ShardSize = rapid.SampledFrom([]uint64{0, 7, 1024}).Draw(t, "ss")
	}
	o.PinUpdate = cid.Undef
	return o, "delta:" + d
}

const rule = "state machine over 10 CIDs (4 plain, 2 sharded roots with their cluster DAG and shard entries) and 5 healthy members: Pin/PinPath with fresh options or a single-field delta of the stored options (name, mode, factors, 0/0 defaults, invalid factors, metadata key added/removed/changed, origin added/removed, user allocations, expiry set/cleared/past/sub-second, shard size), Cluster.Pin RPC with well-formed pins of every type and preset allocations, sharded installs, PinUpdate (direct and through the update option), Unpin/UnpinPath, Unpin of a sharded root while the daemon cannot produce its cluster-DAG block (must be refused as a whole), flips of the cluster default factors and of follower mode; after every step the pinset, the returned value/error and the LogPin/LogUnpin calls are compared with a model written from the statement; non-trivial = history has a re-pin of a stored CID with a delta and a refusal; distinct by action script"

func TestPinset(t *testing.T) {
	leg := ev.L("pinset", rule)
	ctx := context.Background()
	rapid.Check(t, func(t *rapid.T) {
		fx.S.Reset()
		fx.S.SetPeers(members)
		fx.Cfg.FollowerMode = false
		m := &model{pins: map[string]*api.Pin{}, defMin: -1, defMax: -1}
		fx.Cfg.ReplicationFactorMin, fx.Cfg.ReplicationFactorMax = -1, -1
		var script []string
		classes := map[string]bool{}
		step := 0

		// apply runs one call and compares with the expectation
		apply := func(desc string, e expect, call func() (*api.Pin, error), prev *api.Pin) {
			step++
			script = append(script, desc)
			before := renderReal()
			if before != m.render() {
				t.Fatalf("harness: model and pinset differ before step %d", step)
			}
			fx.S.TakeLog()
			got, err := call()
			after := renderReal()
			log := fx.S.TakeLog()
			if e.refuse == "?" {
				// unspecified by the statement: resynchronise the model
				m.pins = map[string]*api.Pin{}
				for _, p := range fx.S.Pins() {
					m.pins[p.Cid.String()] = p
				}
				classes["unspecified"] = true
				return
			}
			if e.refuse != "" {
				classes["refusal"] = true
				classes["refusal:"+e.refuse] = true
				if e.refuseKF != "" && kf.Open(e.refuseKF) {
					leg.Excl("refusal '" + e.refuse + "' through PinUpdate not asserted (" + e.refuseKF + ")")
					m.pins = map[string]*api.Pin{}
					for _, p := range fx.S.Pins() {
						m.pins[p.Cid.String()] = p
					}
					return
				}
				if err == nil {
					t.Fatalf("step %d %s: must be refused (%s) but succeeded\nscript: %s", step, desc, e.refuse, strings.Join(script, " ; "))
				}
				if after != before {
					t.Fatalf("step %d %s: refused (%s, error %q) but the pinset changed\nbefore:\n%safter:\n%sscript: %s", step, desc, e.refuse, err, before, after, strings.Join(script, " ; "))
				}
				if len(log) != 0 {
					t.Fatalf("step %d %s: refused (%s) but %d operations reached consensus\nscript: %s", step, desc, e.refuse, len(log), strings.Join(script, " ; "))
				}
				return
			}
			if err != nil {
				t.Fatalf("step %d %s: must succeed but failed: %v\nscript: %s", step, desc, err, strings.Join(script, " ; "))
			}
			if e.stored != nil {
				st, gerr := fx.C.PinGet(ctx, e.stored.Cid)
				if gerr != nil {
					t.Fatalf("step %d %s: succeeded but PinGet fails: %v", step, desc, gerr)
				}
				checkAllocs(t, fmt.Sprintf("step %d %s", step, desc), e, st.Allocations, e.stored)
				want := fakes.CopyPin(e.stored)
				want.Allocations = st.Allocations
				if ex := m.pins[st.Cid.String()]; ex != nil && !want.PinUpdate.Defined() {
					// the update source is transport information, documented as
					// deliberately ignored when options are compared: a re-pin
					// without it may keep the recorded one (oracle decision)
					want.PinUpdate = st.PinUpdate
				}
				if ex := m.pins[st.Cid.String()]; ex != nil && want.Type != api.MetaType && want.Reference != nil && ex.Reference != nil &&
					!want.Reference.Equals(*ex.Reference) && sameOptions(want, ex) {
					// the reference of a cluster-DAG or shard entry is not a pin
					// option: a re-pin with identical options re-submits the
					// recorded entry, reference included (oracle decision, DESIGN 9.3)
					r := *ex.Reference
					want.Reference = &r
					classes["repin-identical-other-reference"] = true
				}
				if a, b := cmpx.PinStr(want, norm), cmpx.PinStr(st, norm); a != b {
					t.Fatalf("step %d %s: stored entry differs from the request: %s\nscript: %s", step, desc, cmpx.Diff(a, b), strings.Join(script, " ; "))
				}
				if got != nil {
					if a, b := cmpx.PinStr(got, norm), cmpx.PinStr(st, norm); a != b {
						t.Fatalf("step %d %s: returned pin differs from the stored one: %s", step, desc, cmpx.Diff(b, a))
					}
				}
				m.pins[st.Cid.String()] = st
			}
			for _, r := range e.removed {
				if prev != nil && got != nil && r.Equals(prev.Cid) {
					if a, b := cmpx.PinStr(prev, norm), cmpx.PinStr(got, norm); a != b {
						t.Fatalf("step %d %s: Unpin returned a pin different from the stored one: %s", step, desc, cmpx.Diff(a, b))
					}
				}
				delete(m.pins, r.String())
			}
			if want := m.render(); after != want {
				t.Fatalf("step %d %s: pinset differs from the model\nwant:\n%sgot:\n%sscript: %s", step, desc, want, after, strings.Join(script, " ; "))
			}
			np := 0
			unp := map[string]bool{}
			for _, l := range log {
				if l.Unpin {
					unp[l.Pin.Cid.String()] = true
				} else {
					np++
				}
			}
			// unpins are compared as a set: removing a sharded root unpins the
			// root entry twice, which is harmless
			okUnpins := len(unp) == len(e.removed)
			for _, r := range e.removed {
				if !unp[r.String()] {
					okUnpins = false
				}
			}
			if np != e.logPins || !okUnpins {
				t.Fatalf("step %d %s: consensus saw %d pins and unpins of %d CIDs, expected %d pins and exactly the %d removed CIDs\nscript: %s", step, desc, np, len(unp), e.logPins, len(e.removed), strings.Join(script, " ; "))
			}
		}

		noteRepin := func(c cid.Cid, kind string) {
			if m.pins[c.String()] != nil {
				classes["repin"] = true
				if strings.HasPrefix(kind, "delta:") && kind != "delta:same" {
					classes["repin-delta"] = true
				}
				if kind == "delta:same" {
					classes["repin-identical"] = true
				}
			}
		}

		t.Repeat(map[string]func(*rapid.T){
			"pin": func(t *rapid.T) {
				c := drawCid(t, "cid")
				o, kind := drawOpts(t, m, c)
				noteRepin(c, kind)
				req := api.PinWithOpts(c, o)
				e := m.expectPin(req, time.Now())
				apply(fmt.Sprintf("Pin(%s,%s %s)", cname(c), kind, cmpx.OptsStr(o, cmpx.Norm{})), e, func() (*api.Pin, error) { return fx.C.Pin(ctx, c, o) }, nil)
			},
			"pinPath": func(t *rapid.T) {
				i := rapid.IntRange(0, len(universe)).Draw(t, "pathidx")
				var path string
				var target cid.Cid
				switch {
				case i == len(universe):
					path = "/ipfs/" + gen.Cids[11].String() + "/unresolvable"
				case rapid.Bool().Draw(t, "sub"):
					path = fmt.Sprintf("/ipfs/%s/sub dir/f?x#y", universe[i])
					target = universe[(i+1)%len(universe)]
				default:
					path = fmt.Sprintf("/ipns/example.org/%d", i)
					target = universe[i]
				}
				if !target.Defined() {
					o := gen.Options(reqCfg()).Draw(t, "opts")
					apply("PinPath(unresolvable)", expect{refuse: "unresolvable path"}, func() (*api.Pin, error) { return fx.C.PinPath(ctx, path, o) }, nil)
					return
				}
				o, kind := drawOpts(t, m, target)
				noteRepin(target, kind)
				e := m.expectPin(api.PinWithOpts(target, o), time.Now())
				apply(fmt.Sprintf("PinPath(->%s,%s)", cname(target), kind), e, func() (*api.Pin, error) { return fx.C.PinPath(ctx, path, o) }, nil)
			},
			"rpcPin": func(t *rapid.T) {
				c := drawCid(t, "cid")
				cfg := reqCfg()
				cfg.NPeers = 5
				p := gen.PinOf(cfg, &c).Draw(t, "pin")
				if p.Reference != nil {
					r := drawCid(t, "ref")
					p.Reference = &r
				}
				noteRepin(c, "rpc")
				e := m.expectPin(p, time.Now())
				classes["rpc:"+p.Type.String()] = true
				apply(fmt.Sprintf("RPC Cluster.Pin(%s %s depth=%d allocs=%d)", cname(c), p.Type, p.MaxDepth, len(p.Allocations)), e, func() (*api.Pin, error) {
					var out api.Pin
					err := fx.API.RPC().CallContext(ctx, "", "Cluster", "Pin", fakes.CopyPin(p), &out)
					if err != nil {
						return nil, err
					}
					return &out, nil
				}, nil)
			},
			"sharded": func(t *rapid.T) {
				s := shardSets[rapid.IntRange(0, len(shardSets)-1).Draw(t, "set")]
				allocs := gen.PeerSubset(5, 2).Draw(t, "allocs")
				var prev *cid.Cid
				mk := func(c cid.Cid, typ api.PinType) *api.Pin {
					p := api.PinWithOpts(c, api.PinOptions{ReplicationFactorMin: 1, ReplicationFactorMax: 2, Name: "sharded"})
					p.Type = typ
					return p
				}
				call := func(p *api.Pin) func() (*api.Pin, error) {
					return func() (*api.Pin, error) {
						var out api.Pin
						err := fx.API.RPC().CallContext(ctx, "", "Cluster", "Pin", fakes.CopyPin(p), &out)
						if err != nil {
							return nil, err
						}
						return &out, nil
					}
				}
				for _, sh := range s.shards {
					p := mk(sh, api.ShardType)
					p.MaxDepth = 1
					p.Allocations = allocs
					p.Reference = prev
					c := sh
					prev = &c
					apply(fmt.Sprintf("RPC shard(%s)", cname(sh)), m.expectPin(p, time.Now()), call(p), nil)
				}
				d := mk(s.dag, api.ClusterDAGType)
				d.MaxDepth = 0
				d.ReplicationFactorMin, d.ReplicationFactorMax = -1, -1
				d.Reference = &s.meta
				apply(fmt.Sprintf("RPC clusterdag(%s)", cname(s.dag)), m.expectPin(d, time.Now()), call(d), nil)
				mp := mk(s.meta, api.MetaType)
				mp.Reference = &s.dag
				apply(fmt.Sprintf("RPC meta(%s)", cname(s.meta)), m.expectPin(mp, time.Now()), call(mp), nil)
				classes["sharded"] = true
			},
			"update": func(t *rapid.T) {
				from, to := drawCid(t, "from"), drawCid(t, "to")
				if from.Equals(to) {
					t.Skip("same")
				}
				o := api.PinOptions{Name: rapid.SampledFrom([]string{"", "updated"}).Draw(t, "name")}
				switch rapid.IntRange(0, 2).Draw(t, "exp") {
				case 1:
					o.ExpireAt = gen.Base.Add(2 * time.Hour)
				case 2:
					o.ExpireAt = time.Now().Add(-time.Hour)
				}
				via := rapid.Bool().Draw(t, "viaPin")
				e := m.expectUpdate(from, to, o, time.Now())
				if m.follower && via {
					e = expect{refuse: "follower mode"}
				}
				if m.pins[from.String()] != nil {
					classes["update-of-stored"] = true
				}
				if via {
					o2 := o
					o2.PinUpdate = from
					apply(fmt.Sprintf("Pin(%s,update=%s)", cname(to), cname(from)), e, func() (*api.Pin, error) { return fx.C.Pin(ctx, to, o2) }, nil)
				} else {
					apply(fmt.Sprintf("PinUpdate(%s->%s)", cname(from), cname(to)), e, func() (*api.Pin, error) { return fx.C.PinUpdate(ctx, from, to, o) }, nil)
				}
			},
			"unpin": func(t *rapid.T) {
				c := drawCid(t, "cid")
				e := m.expectUnpin(c)
				prev := m.pins[c.String()]
				if prev != nil {
					classes["unpin-stored"] = true
					if prev.Type == api.MetaType {
						classes["unpin-meta"] = true
					}
				}
				if rapid.Bool().Draw(t, "path") {
					path := fmt.Sprintf("/ipns/example.org/%d", idxOf(c))
					apply(fmt.Sprintf("UnpinPath(->%s)", cname(c)), e, func() (*api.Pin, error) { return fx.C.UnpinPath(ctx, path) }, prev)
				} else {
					apply(fmt.Sprintf("Unpin(%s)", cname(c)), e, func() (*api.Pin, error) { return fx.C.Unpin(ctx, c) }, prev)
				}
			},
			"unpinWithUnreadableDag": func(t *rapid.T) {
				// the IPFS daemon cannot produce the cluster-DAG block (down,
				// block collected): the shards of the item cannot be
				// enumerated, so the unpin cannot be carried out as a whole
				s := shardSets[rapid.IntRange(0, len(shardSets)-1).Draw(t, "set")]
				prev := m.pins[s.meta.String()]
				e := m.expectUnpin(s.meta)
				if e.refuse == "" && prev != nil && prev.Type == api.MetaType {
					e = expect{refuse: "cluster-DAG block unreadable"}
					classes["unpin-meta-dag-unreadable"] = true
				}
				key := s.dag.String()
				fx.IPFS.Lock()
				raw := fx.IPFS.Blocks[key]
				delete(fx.IPFS.Blocks, key)
				fx.IPFS.Unlock()
				apply(fmt.Sprintf("Unpin(%s) while its cluster-DAG block is unreadable", cname(s.meta)), e, func() (*api.Pin, error) { return fx.C.Unpin(ctx, s.meta) }, prev)
				fx.IPFS.Lock()
				fx.IPFS.Blocks[key] = raw
				fx.IPFS.Unlock()
			},
			"setDefaults": func(t *rapid.T) {
				f := gen.Factors(false).Draw(t, "defaults")
				m.defMin, m.defMax = f[0], f[1]
				fx.Cfg.ReplicationFactorMin, fx.Cfg.ReplicationFactorMax = f[0], f[1]
				script = append(script, fmt.Sprintf("defaults=%d/%d", f[0], f[1]))
			},
			"setFollower": func(t *rapid.T) {
				b := rapid.IntRange(0, 3).Draw(t, "follower") == 0
				m.follower = b
				fx.Cfg.FollowerMode = b
				script = append(script, fmt.Sprintf("follower=%v", b))
				if b {
					classes["follower"] = true
				}
			},
		})
		fx.Cfg.FollowerMode = false
		var cl []string
		for k := range classes {
			cl = append(cl, k)
		}
		sort.Strings(cl)
		leg.Case(strings.Join(script, " ; "), classes["repin-delta"] && classes["refusal"], cl...)
	})
}

func idxOf(c cid.Cid) int {
	for i, u := range universe {
		if u.Equals(c) {
			return i
		}
	}
	return -1
}

var _ = ipfscluster.DefaultRPCPolicy
