package c13

import (
	"context"
	"testing"

	files "github.com/ipfs/go-ipfs-files"
	"github.com/ipfs/ipfs-cluster/adder"
	"github.com/ipfs/ipfs-cluster/adder/sharding"
	"github.com/ipfs/ipfs-cluster/adder/single"
	"github.com/ipfs/ipfs-cluster/api"
	peer "github.com/libp2p/go-libp2p-core/peer"
)

func addOne(t *testing.T, params *api.AddParams, content []byte) (error, int) {
	resetFixture()
	cluster.allocs = [][]peer.ID{{dests[0].h.ID()}}
	out := make(chan *api.AddedOutput, 64)
	go func() {
		for range out {
		}
	}()
	return addWith(params, content, out)
}

func addWith(params *api.AddParams, content []byte, out chan *api.AddedOutput) (error, int) {
	dgs := single.New(client, params.PinOptions, true)
	a := adder.New(dgs, params, out)
	in := []files.DirEntry{files.FileEntry("f", files.NewBytesFile(content))}
	_, err := a.FromFiles(context.Background(), files.NewSliceDirectory(in))
	cluster.mu.Lock()
	defer cluster.mu.Unlock()
	return err, len(cluster.pins)
}

// the first chunk's block put fails once: the add must fail, not pin a DAG
// with a hole (go-unixfs ignores that error).
func TestRegressFirstChunkLost(t *testing.T) {
	resetFixture()
	cluster.allocs = [][]peer.ID{{dests[0].h.ID()}}
	dests[0].failAt = 1
	params := api.DefaultAddParams()
	params.Chunker = "size-32"
	out := make(chan *api.AddedOutput, 64)
	go func() {
		for range out {
		}
	}()
	err, pins := addWith(params, genContent(1, 224), out)
	if err == nil || pins != 0 {
		t.Fatalf("first block lost on every destination: err=%v pins=%d", err, pins)
	}
}

func TestRegressSha512CidV0(t *testing.T) {
	defer func() {
		if r := recover(); r != nil {
			t.Fatalf("adding with sha2-512 and CIDv0 panics: %v", r)
		}
	}()
	params := api.DefaultAddParams()
	params.HashFun = "sha2-512"
	err, pins := addOne(t, params, []byte("hello"))
	if err == nil || pins != 0 {
		t.Fatalf("sha2-512 with CIDv0: err=%v pins=%d", err, pins)
	}
}

// Regression: with a shard size smaller than a chunk, the first chunk of a
// two-chunk file fits no shard; its error was lost, the small last chunk was
// ingested, and the add succeeded with the root pinned and a block missing
// (fixed in /repo: the sharding DAG service remembers the failure).
func TestRegressShardSmallerThanFirstChunk(t *testing.T) {
	resetFixture()
	cluster.allocs = [][]peer.ID{{dests[0].h.ID()}}
	params := api.DefaultAddParams()
	params.Chunker = "size-256"
	params.Shard = true
	params.ShardSize = 200
	params.ReplicationFactorMin, params.ReplicationFactorMax = 1, 1
	out := make(chan *api.AddedOutput, 64)
	go func() {
		for range out {
		}
	}()
	dgs := sharding.New(client, params.PinOptions, out)
	a := adder.New(dgs, params, out)
	in := []files.DirEntry{files.FileEntry("f", files.NewBytesFile(genContent(3, 256+40)))}
	_, err := a.FromFiles(context.Background(), files.NewSliceDirectory(in))
	cluster.mu.Lock()
	pins := len(cluster.pins)
	cluster.mu.Unlock()
	if err == nil {
		t.Fatalf("a 256-byte chunk cannot be placed in 200-byte shards, yet the add succeeded with %d pins", pins)
	}
	for _, p := range clusterPins() {
		if p.Type == api.MetaType {
			t.Fatalf("the add failed (%v) but the content root was pinned", err)
		}
	}
}

func clusterPins() []*api.Pin {
	cluster.mu.Lock()
	defer cluster.mu.Unlock()
	return append([]*api.Pin(nil), cluster.pins...)
}
