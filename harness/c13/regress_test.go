package c13

import (
	"context"
	"testing"

	files "github.com/ipfs/go-ipfs-files"
	"github.com/ipfs/ipfs-cluster/adder"
	"github.com/ipfs/ipfs-cluster/adder/single"
	"github.com/ipfs/ipfs-cluster/api"
	peer "github.com/libp2p/go-libp2p-core/peer"
)

func addOne(t *testing.T, params *api.AddParams, content []byte) (error, int) {
	resetFixture()
	cluster.allocs = [][]peer.ID{{dests[0].h.ID()}}
	out := make(chan *api.AddedOutput, 64)
	go func() {
		for range out {
		}
	}()
	return addWith(params, content, out)
}

func addWith(params *api.AddParams, content []byte, out chan *api.AddedOutput) (error, int) {
	dgs := single.New(client, params.PinOptions, true)
	a := adder.New(dgs, params, out)
	in := []files.DirEntry{files.FileEntry("f", files.NewBytesFile(content))}
	_, err := a.FromFiles(context.Background(), files.NewSliceDirectory(in))
	cluster.mu.Lock()
	defer cluster.mu.Unlock()
	return err, len(cluster.pins)
}

// the first chunk's block put fails once: the add must fail, not pin a DAG
// with a hole (go-unixfs ignores that error).
func TestRegressFirstChunkLost(t *testing.T) {
	resetFixture()
	cluster.allocs = [][]peer.ID{{dests[0].h.ID()}}
	dests[0].failAt = 1
	params := api.DefaultAddParams()
	params.Chunker = "size-32"
	out := make(chan *api.AddedOutput, 64)
	go func() {
		for range out {
		}
	}()
	err, pins := addWith(params, genContent(1, 224), out)
	if err == nil || pins != 0 {
		t.Fatalf("first block lost on every destination: err=%v pins=%d", err, pins)
	}
}

func TestRegressSha512CidV0(t *testing.T) {
	defer func() {
		if r := recover(); r != nil {
			t.Fatalf("adding with sha2-512 and CIDv0 panics: %v", r)
		}
	}()
	params := api.DefaultAddParams()
	params.HashFun = "sha2-512"
	err, pins := addOne(t, params, []byte("hello"))
	if err == nil || pins != 0 {
		t.Fatalf("sha2-512 with CIDv0: err=%v pins=%d", err, pins)
	}
}
