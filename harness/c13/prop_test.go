// Package c13: added content is fully delivered, readable from its blocks,
// and pinned as asked.
package c13

import (
	"bytes"
	"context"
	"fmt"
	"io"
	"io/ioutil"
	"math/rand"
	"os"
	"sort"
	"strings"
	"sync"
	"testing"
	"time"

	"verifharness/internal/cmpx"
	"verifharness/internal/ev"
	"verifharness/internal/fakes"
	"verifharness/internal/gen"
	"verifharness/internal/kf"

	blocks "github.com/ipfs/go-block-format"
	cid "github.com/ipfs/go-cid"
	chunker "github.com/ipfs/go-ipfs-chunker"
	files "github.com/ipfs/go-ipfs-files"
	cbor "github.com/ipfs/go-ipld-cbor"
	ipld "github.com/ipfs/go-ipld-format"
	dag "github.com/ipfs/go-merkledag"
	ft "github.com/ipfs/go-unixfs"
	"github.com/ipfs/go-unixfs/importer/balanced"
	ihelper "github.com/ipfs/go-unixfs/importer/helpers"
	"github.com/ipfs/go-unixfs/importer/trickle"
	uio "github.com/ipfs/go-unixfs/io"
	"github.com/ipfs/ipfs-cluster/adder"
	"github.com/ipfs/ipfs-cluster/adder/sharding"
	"github.com/ipfs/ipfs-cluster/adder/single"
	"github.com/ipfs/ipfs-cluster/api"
	host "github.com/libp2p/go-libp2p-core/host"
	peer "github.com/libp2p/go-libp2p-core/peer"
	peerstore "github.com/libp2p/go-libp2p-core/peerstore"
	rpc "github.com/libp2p/go-libp2p-gorpc"
	mh "github.com/multiformats/go-multihash"
	"pgregory.net/rapid"
)

// KFIndirectDepth: a shard whose links need an indirect DAG is pinned with
// max-depth 1.
const KFIndirectDepth = "C13-indirect-shard-pinned-depth-1"

const proto = "/verif/rpc"

// dest is one destination daemon: a libp2p host with a recording
// IPFSConnector.BlockPut.
type dest struct {
	h      host.Host
	mu     sync.Mutex
	blocks map[string][]byte
	order  []cid.Cid
	nput   int
	failAt int  // fail the k-th BlockPut (1-based); 0 = never
	always bool // keep failing afterwards
	// failCid: fail (once) the put of this block
	failCid    string
	failCidHit bool
	// failCbor: fail (once) the n-th put of a dag-cbor block (shard and
	// cluster-DAG nodes)
	failCbor int
	ncbor    int
}

// putLog is the global arrival order of block puts (all destinations).
var (
	putLogMu sync.Mutex
	putLog   []cid.Cid
)

type ipfsSvc struct{ d *dest }

func (s *ipfsSvc) BlockPut(ctx context.Context, in *api.NodeWithMeta, out *struct{}) error {
	d := s.d
	putLogMu.Lock()
	putLog = append(putLog, in.Cid)
	putLogMu.Unlock()
	d.mu.Lock()
	defer d.mu.Unlock()
	d.nput++
	if d.failAt > 0 && (d.nput == d.failAt || (d.always && d.nput > d.failAt)) {
		return fmt.Errorf("injected block put failure")
	}
	if in.Cid.Prefix().Codec == cid.DagCBOR {
		d.ncbor++
		if d.failCbor > 0 && d.ncbor == d.failCbor {
			return fmt.Errorf("injected block put failure (transient, shard node)")
		}
	}
	if d.failCid != "" && !d.failCidHit && in.Cid.String() == d.failCid {
		d.failCidHit = true
		return fmt.Errorf("injected block put failure (transient)")
	}
	// verify the CID matches the data
	d.blocks[in.Cid.String()] = append([]byte(nil), in.Data...)
	d.order = append(d.order, in.Cid)
	return nil
}

type clusterSvc struct {
	mu      sync.Mutex
	allocs  [][]peer.ID // answers for successive BlockAllocate calls (last repeats)
	ncall   int
	pins    []*api.Pin
	failPin bool
}

func (c *clusterSvc) BlockAllocate(ctx context.Context, in *api.Pin, out *[]peer.ID) error {
	c.mu.Lock()
	defer c.mu.Unlock()
	i := c.ncall
	if i >= len(c.allocs) {
		i = len(c.allocs) - 1
	}
	c.ncall++
	*out = append([]peer.ID(nil), c.allocs[i]...)
	return nil
}

func (c *clusterSvc) Pin(ctx context.Context, in *api.Pin, out *api.Pin) error {
	c.mu.Lock()
	defer c.mu.Unlock()
	if c.failPin {
		return fmt.Errorf("injected pin failure")
	}
	c.pins = append(c.pins, fakes.CopyPin(in))
	*out = *in
	return nil
}

var (
	dests   []*dest
	cluster *clusterSvc
	client  *rpc.Client
)

func TestMain(m *testing.M) {
	for i := 0; i < 3; i++ {
		h := fakes.NewHost(gen.PeerKeys[i], true)
		d := &dest{h: h, blocks: map[string][]byte{}}
		s := rpc.NewServer(h, proto)
		if err := s.RegisterName("IPFSConnector", &ipfsSvc{d}); err != nil {
			panic(err)
		}
		if i == 0 {
			cluster = &clusterSvc{}
			if err := s.RegisterName("Cluster", cluster); err != nil {
				panic(err)
			}
			client = rpc.NewClientWithServer(h, proto, s)
		}
		dests = append(dests, d)
	}
	for _, d := range dests[1:] {
		dests[0].h.Peerstore().AddAddrs(d.h.ID(), d.h.Addrs(), peerstore.PermanentAddrTTL)
		if err := dests[0].h.Connect(context.Background(), peer.AddrInfo{ID: d.h.ID(), Addrs: d.h.Addrs()}); err != nil {
			panic(err)
		}
	}
	code := m.Run()
	ev.Flush()
	os.Exit(code)
}

// ---- input trees ----

type node struct {
	name     string
	content  []byte // file
	children []*node
	dir      bool
	link     string // symbolic link target ("" = not a link)
}

func genContent(seed int64, n int) []byte {
	b := make([]byte, n)
	rand.New(rand.NewSource(seed)).Read(b)
	return b
}

func drawTree(t *rapid.T, depth, chunk int, forceDir bool) *node {
	names := []string{"a", "b.txt", ".hidden", "ünï", "with space", ".config", "z"}
	var mk func(d int, name string) *node
	mk = func(d int, name string) *node {
		if d < depth && (rapid.IntRange(0, 2).Draw(t, "isdir") == 0 || (forceDir && d == 0)) {
			n := &node{name: name, dir: true}
			k := rapid.IntRange(0, 4).Draw(t, "nchildren")
			if forceDir && d == 0 {
				k += 2
			}
			used := map[string]bool{}
			for i := 0; i < k; i++ {
				nm := rapid.SampledFrom(names).Draw(t, "name")
				if used[nm] {
					continue
				}
				used[nm] = true
				n.children = append(n.children, mk(d+1, nm))
			}
			sort.Slice(n.children, func(i, j int) bool { return n.children[i].name < n.children[j].name })
			return n
		}
		// inside a directory, one entry in eight is a symbolic link
		if d > 0 && rapid.IntRange(0, 7).Draw(t, "symlink") == 0 {
			return &node{name: name, link: rapid.SampledFrom([]string{"a", "../b.txt", "/abs/target", "ünï"}).Draw(t, "target")}
		}
		sizes := []int{0, 1, chunk - 1, chunk, chunk + 1, 3*chunk + rapid.IntRange(0, chunk-1).Draw(t, "r"), 7 * chunk, 7 * chunk, 12*chunk + 3}
		sz := rapid.SampledFrom(sizes).Draw(t, "size")
		return &node{name: name, content: genContent(int64(rapid.IntRange(0, 1<<30).Draw(t, "seed")), sz)}
	}
	return mk(0, "root")
}

func toFiles(n *node) files.Node {
	if n.link != "" {
		return files.NewLinkFile(n.link, nil)
	}
	if !n.dir {
		return files.NewBytesFile(n.content)
	}
	var entries []files.DirEntry
	for _, c := range n.children {
		entries = append(entries, files.FileEntry(c.name, toFiles(c)))
	}
	return files.NewSliceDirectory(entries)
}

func (n *node) String() string {
	if n.link != "" {
		return fmt.Sprintf("%s->%s", n.name, n.link)
	}
	if !n.dir {
		return fmt.Sprintf("%s(%d)", n.name, len(n.content))
	}
	var s []string
	for _, c := range n.children {
		s = append(s, c.String())
	}
	return n.name + "/{" + strings.Join(s, ",") + "}"
}

// ---- reference importer (go-unixfs primitives only) ----

type memDag struct {
	mu  sync.Mutex
	m   map[string]ipld.Node
	seq []cid.Cid
}

func newMemDag() *memDag { return &memDag{m: map[string]ipld.Node{}} }
func (d *memDag) Add(ctx context.Context, n ipld.Node) error {
	d.mu.Lock()
	if _, ok := d.m[n.Cid().String()]; !ok {
		d.seq = append(d.seq, n.Cid())
	}
	d.m[n.Cid().String()] = n
	d.mu.Unlock()
	return nil
}
func (d *memDag) AddMany(ctx context.Context, ns []ipld.Node) error {
	for _, n := range ns {
		d.Add(ctx, n)
	}
	return nil
}
func (d *memDag) Get(ctx context.Context, c cid.Cid) (ipld.Node, error) {
	d.mu.Lock()
	defer d.mu.Unlock()
	if n, ok := d.m[c.String()]; ok {
		return n, nil
	}
	return nil, ipld.ErrNotFound
}
func (d *memDag) GetMany(ctx context.Context, cs []cid.Cid) <-chan *ipld.NodeOption {
	out := make(chan *ipld.NodeOption, len(cs))
	for _, c := range cs {
		n, err := d.Get(ctx, c)
		out <- &ipld.NodeOption{Node: n, Err: err}
	}
	close(out)
	return out
}
func (d *memDag) Remove(ctx context.Context, c cid.Cid) error       { return nil }
func (d *memDag) RemoveMany(ctx context.Context, c []cid.Cid) error { return nil }

type importCfg struct {
	chunker   string
	trickle   bool
	rawLeaves bool
	cidV      int
	hash      string
}

func (c importCfg) builder() cid.Builder {
	p, _ := dag.PrefixForCidVersion(c.cidV)
	p.MhType = mh.Names[c.hash]
	p.MhLength = -1
	return &p
}

func refImport(ds ipld.DAGService, n *node, c importCfg) (ipld.Node, error) {
	ctx := context.Background()
	if n.link != "" {
		// what go-ipfs stores for a symbolic link: a unixfs node of type
		// Symlink built with the requested CID version and hash function
		data, err := ft.SymlinkData(n.link)
		if err != nil {
			return nil, err
		}
		nd := dag.NodeWithData(data)
		nd.SetCidBuilder(c.builder())
		if err := ds.Add(ctx, nd); err != nil {
			return nil, err
		}
		return nd, nil
	}
	if !n.dir {
		chnk, err := chunker.FromString(bytes.NewReader(n.content), c.chunker)
		if err != nil {
			return nil, err
		}
		params := ihelper.DagBuilderParams{Dagserv: ds, RawLeaves: c.rawLeaves, Maxlinks: ihelper.DefaultLinksPerBlock, CidBuilder: c.builder()}
		db, err := params.New(chnk)
		if err != nil {
			return nil, err
		}
		if c.trickle {
			return trickle.Layout(db)
		}
		return balanced.Layout(db)
	}
	dir := uio.NewDirectory(ds)
	dir.SetCidBuilder(c.builder())
	for _, ch := range n.children {
		cn, err := refImport(ds, ch, c)
		if err != nil {
			return nil, err
		}
		if err := dir.AddChild(ctx, ch.name, cn); err != nil {
			return nil, err
		}
	}
	nd, err := dir.GetNode()
	if err != nil {
		return nil, err
	}
	ds.Add(ctx, nd)
	return nd, nil
}

// blockDag serves ipld nodes out of delivered raw blocks only.
type blockDag struct {
	m map[string][]byte
}

func (b *blockDag) Get(ctx context.Context, c cid.Cid) (ipld.Node, error) {
	data, ok := b.m[c.String()]
	if !ok {
		return nil, ipld.ErrNotFound
	}
	blk, err := blocks.NewBlockWithCid(data, c)
	if err != nil {
		return nil, err
	}
	return ipld.Decode(blk)
}
func (b *blockDag) GetMany(ctx context.Context, cs []cid.Cid) <-chan *ipld.NodeOption {
	out := make(chan *ipld.NodeOption, len(cs))
	for _, c := range cs {
		n, err := b.Get(ctx, c)
		out <- &ipld.NodeOption{Node: n, Err: err}
	}
	close(out)
	return out
}
func (b *blockDag) Add(context.Context, ipld.Node) error        { return nil }
func (b *blockDag) AddMany(context.Context, []ipld.Node) error  { return nil }
func (b *blockDag) Remove(context.Context, cid.Cid) error       { return nil }
func (b *blockDag) RemoveMany(context.Context, []cid.Cid) error { return nil }

// closure walks links from root and returns the reachable CIDs, or the first
// missing one.
func closure(b *blockDag, root cid.Cid) (map[string]bool, error) {
	seen := map[string]bool{}
	var walk func(c cid.Cid) error
	walk = func(c cid.Cid) error {
		if seen[c.String()] {
			return nil
		}
		n, err := b.Get(context.Background(), c)
		if err != nil {
			return fmt.Errorf("block %s (reachable from the root) was not delivered", c)
		}
		seen[c.String()] = true
		for _, l := range n.Links() {
			if err := walk(l.Cid); err != nil {
				return err
			}
		}
		return nil
	}
	return seen, walk(root)
}

// readBack checks that the tree reads back from the delivered blocks.
func readBack(b *blockDag, c cid.Cid, n *node) error {
	ctx := context.Background()
	nd, err := b.Get(ctx, c)
	if err != nil {
		return fmt.Errorf("%s: %v", n.name, err)
	}
	if n.link != "" {
		pn, ok := nd.(*dag.ProtoNode)
		if !ok {
			return fmt.Errorf("%s: symbolic link stored as a non-protobuf node", n.name)
		}
		fsn, err := ft.FSNodeFromBytes(pn.Data())
		if err != nil || fsn.Type() != ft.TSymlink || string(fsn.Data()) != n.link {
			return fmt.Errorf("%s: not the symbolic link to %q that was added (err %v)", n.name, n.link, err)
		}
		return nil
	}
	if !n.dir {
		r, err := uio.NewDagReader(ctx, nd, b)
		if err != nil {
			return fmt.Errorf("%s: %v", n.name, err)
		}
		got, err := ioutil.ReadAll(r)
		if err != nil {
			return fmt.Errorf("%s: reading: %v", n.name, err)
		}
		if !bytes.Equal(got, n.content) {
			return fmt.Errorf("file %s reads back %d bytes that differ from the %d input bytes", n.name, len(got), len(n.content))
		}
		return nil
	}
	dir, err := uio.NewDirectoryFromNode(b, nd)
	if err != nil {
		return fmt.Errorf("%s: not a directory: %v", n.name, err)
	}
	links, err := dir.Links(ctx)
	if err != nil {
		return err
	}
	if len(links) != len(n.children) {
		return fmt.Errorf("directory %s lists %d entries, input has %d", n.name, len(links), len(n.children))
	}
	byName := map[string]cid.Cid{}
	for _, l := range links {
		byName[l.Name] = l.Cid
	}
	for _, ch := range n.children {
		cc, ok := byName[ch.name]
		if !ok {
			return fmt.Errorf("directory %s lacks entry %q", n.name, ch.name)
		}
		if err := readBack(b, cc, ch); err != nil {
			return err
		}
	}
	return nil
}

func resetFixture() {
	for _, d := range dests {
		d.mu.Lock()
		d.blocks = map[string][]byte{}
		d.order = nil
		d.nput, d.failAt, d.always = 0, 0, false
		d.failCid, d.failCidHit = "", false
		d.failCbor, d.ncbor = 0, 0
		d.mu.Unlock()
	}
	cluster.mu.Lock()
	cluster.pins, cluster.ncall, cluster.failPin = nil, 0, false
	cluster.mu.Unlock()
}

func didx(p peer.ID) int {
	for i, d := range dests {
		if d.h.ID() == p {
			return i
		}
	}
	return -1
}

func plist(ps []peer.ID) string {
	var s []string
	for _, p := range ps {
		s = append(s, fmt.Sprintf("D%d", didx(p)))
	}
	sort.Strings(s)
	return strings.Join(s, ",")
}

var optNorm = cmpx.Norm{DropAllocs: true}

const rule = "case = file tree (0-2 levels, files of size 0, 1, chunk-1, chunk, chunk+1, 3 chunks + r, 7 chunks, names incl. hidden, unicode, spaces; a single file, a single directory or several entries with wrap) x chunker (size-32/64/256, rabin-16-32-64) x layout x raw leaves x CID version x hash function x pin options x destinations (1-3 real libp2p hosts with a recording BlockPut, or local) x sharding with a shard size giving 1-6 shards (or smaller than a chunk) (and a class with > 5984 links in one shard) x optional block-put failure at block k of destination d (once or from then on) or a transient failure of the put of a multi-chunk file's first chunk, or of the n-th shard node, on every destination; one case in six adds a destination nobody can reach x optional pin failure; oracle: delivered blocks closed under links from the root, every file reads back byte-identical through DagReader over delivered blocks only, root(sharded) = root(unsharded) = root of a reference importer built from go-unixfs primitives, pin log exactly as the statement says, failure of every destination for some block => error and no root/meta pin; non-trivial = >= 2 files with one larger than a chunk, or >= 2 shards, or a fault; distinct by rendering"

func TestAdd(t *testing.T) { addLeg(t, ev.L("add", rule)) }

// forceHuge makes every case of the leg a sharded add of one file of more
// than 2^16 distinct blocks whose last chunk repeats the first.
var forceHuge bool

const ruleHuge = "the sharded add of TestAdd with the file fixed to 66000 distinct 32-byte chunks followed by a copy of the first chunk (more blocks than any bounded bookkeeping of the adder is likely to hold; the repeated block must still be linked from exactly one shard), all other choices (layout, raw leaves, CID version, hash, pin options) drawn; same oracle; non-trivial = always"

func TestAddHuge(t *testing.T) {
	forceHuge = true
	defer func() { forceHuge = false }()
	addLeg(t, ev.L("add-huge", ruleHuge))
}

func addLeg(t *testing.T, leg *ev.Leg) {
	ctx := context.Background()
	rapid.Check(t, func(t *rapid.T) {
		resetFixture()
		chunkSpec := rapid.SampledFrom([]string{"size-32", "size-64", "size-256", "rabin-16-32-64"}).Draw(t, "chunker")
		chunk := map[string]int{"size-32": 32, "size-64": 64, "size-256": 256, "rabin-16-32-64": 32}[chunkSpec]
		ic := importCfg{chunker: chunkSpec}
		ic.trickle = rapid.Bool().Draw(t, "trickle")
		ic.cidV = rapid.IntRange(0, 1).Draw(t, "cidv")
		ic.rawLeaves = rapid.Bool().Draw(t, "rawleaves")
		ic.hash = "sha2-256"
		if ic.cidV == 1 {
			ic.hash = rapid.SampledFrom([]string{"sha2-256", "sha2-512", "blake2b-256"}).Draw(t, "hash")
		}
		many := rapid.IntRange(0, 200).Draw(t, "manylinks") == 137 || forceHuge
		var top *node
		wrap := false
		if many {
			if kf.Open(KFIndirectDepth) {
				leg.Excl("shard with more than 5984 links not generated (" + KFIndirectDepth + ")")
				many = false
			}
		}
		if many {
			ic.chunker, chunk = "size-32", 32
			top = &node{name: "big", content: genContent(7, 32*6100)}
			if forceHuge {
				b := genContent(9, 32*66000)
				top = &node{name: "huge", content: append(b, b[:32]...)}
			}
		} else {
			// half of the cases start from a directory with several entries (more
			// file boundaries for shards to fall on)
			top = drawTree(t, 2, chunk, rapid.Bool().Draw(t, "forceDir"))
		}
		entries := []*node{top}
		if top.dir && rapid.Bool().Draw(t, "multi") && len(top.children) > 0 {
			// several top-level entries: wrap is implied (ipfs-cluster-ctl forces it)
			entries = top.children
			wrap = true
		} else {
			wrap = rapid.Bool().Draw(t, "wrap")
		}
		shard := rapid.IntRange(0, 2).Draw(t, "shard") == 0 || many
		c := gen.Full
		c.UnixZero, c.PinUpdate, c.UserAllocs = false, false, false
		c.ZeroFactors = false
		po := gen.Options(c).Draw(t, "opts")
		if shard && po.ReplicationFactorMin < 0 {
			po.ReplicationFactorMin, po.ReplicationFactorMax = 1, 2
		}
		local := !shard && rapid.IntRange(0, 3).Draw(t, "local") == 0
		nd := rapid.IntRange(1, 3).Draw(t, "ndests")
		perm := rapid.Permutation([]int{0, 1, 2}).Draw(t, "destperm")
		if many {
			nd, perm = 1, []int{0, 1, 2} // local destination only: 6000+ block puts
		}
		// one case in six also allocates a peer nobody can reach: puts to it
		// fail at the RPC level, which is tolerated as long as another
		// destination takes the block
		ghost := !local && !many && rapid.IntRange(0, 5).Draw(t, "ghost") == 0
		mkAlloc := func() []peer.ID {
			var a []peer.ID
			for _, i := range perm[:nd] {
				a = append(a, dests[i].h.ID())
			}
			if ghost {
				a = append(a, gen.Peers[9])
			}
			return a
		}
		cluster.allocs = [][]peer.ID{mkAlloc()}
		if shard {
			// a different allocation for the second shard onwards
			perm2 := rapid.Permutation([]int{0, 1, 2}).Draw(t, "destperm2")
			var a []peer.ID
			for _, i := range perm2[:nd] {
				a = append(a, dests[i].h.ID())
			}
			if ghost {
				a = append(a, gen.Peers[9])
			}
			cluster.allocs = append(cluster.allocs, a)
		}
		if shard {
			// (100 and 200 are smaller than some chunk sizes: a block that fits no
			// shard must fail the add, it cannot be skipped)
			po.ShardSize = uint64(rapid.SampledFrom([]int{100, 200, 350, 400, 700, 700, 1500, 4000, 100000}).Draw(t, "shardsize"))
			if many {
				po.ShardSize = 100 << 20
			}
		}
		fault := rapid.IntRange(0, 3).Draw(t, "fault") == 0 && !many
		faultAll := false
		if fault {
			k := rapid.IntRange(1, 12).Draw(t, "failAt")
			always := rapid.Bool().Draw(t, "always")
			faultAll = rapid.IntRange(0, 2).Draw(t, "faultAll") == 0
			if local {
				dests[0].failAt, dests[0].always = k, always
				faultAll = true
			} else if faultAll {
				for _, d := range dests {
					d.failAt, d.always = k, always
				}
			} else {
				d := dests[perm[0]]
				d.failAt, d.always = k, always
			}
		}
		firstChunkFault := fault && rapid.IntRange(0, 2).Draw(t, "firstChunkFault") == 0
		// every sharded case with a fault gets a fault-free dry run first, to
		// see whether some flush is triggered by a multi-chunk file's first chunk
		flushFault, flushAligned := fault && shard && !many, false
		if fault && shard && !firstChunkFault && rapid.IntRange(0, 1).Draw(t, "cborFault") == 0 {
			// transient failure of the n-th shard-node put on every destination
			n := rapid.IntRange(1, 3).Draw(t, "cborN")
			for _, d := range dests {
				d.failAt, d.always, d.failCbor = 0, false, n
			}
			faultAll = true
		}
		pinFails := rapid.IntRange(0, 9).Draw(t, "pinFails") == 0 && !forceHuge // the huge leg is about the shard partition: it must get that far
		cluster.failPin = pinFails

		params := api.DefaultAddParams()
		params.PinOptions = po
		params.Chunker, params.RawLeaves, params.CidVersion, params.HashFun = ic.chunker, ic.rawLeaves, ic.cidV, ic.hash
		if ic.trickle {
			params.Layout = "trickle"
		}
		params.Wrap, params.Shard, params.Local = wrap, shard, local
		desc := fmt.Sprintf("tree=%v wrap=%v %s trickle=%v raw=%v cidv=%d hash=%s shard=%v(size %d) local=%v dests=%s factors=%d/%d fault=%v(all=%v) pinFails=%v many=%v",
			entriesStr(entries), wrap, ic.chunker, ic.trickle, ic.rawLeaves, ic.cidV, ic.hash, shard, po.ShardSize, local, plist(cluster.allocs[0]), po.ReplicationFactorMin, po.ReplicationFactorMax, fault, faultAll, pinFails, many)

		// reference root
		ref := newMemDag()
		var refRoot ipld.Node
		var refErr error
		expectTree := top
		if wrap {
			w := &node{name: "", dir: true, children: entries}
			refRoot, refErr = refImport(ref, w, ic)
			expectTree = w
		} else {
			refRoot, refErr = refImport(ref, entries[0], ic)
			expectTree = entries[0]
		}
		if refErr != nil {
			t.Fatalf("harness: reference import failed: %v", refErr)
		}
		// a transient failure of the put of the first chunk of a multi-chunk
		// file, on every destination (the importer does not look at the
		// result of that particular put; the failure must still surface)
		if fault && firstChunkFault {
			if fc := firstChunks(ref); len(fc) > 0 {
				c := fc[rapid.IntRange(0, len(fc)-1).Draw(t, "firstChunk")]
				for _, d := range dests {
					d.mu.Lock()
					d.failAt, d.always, d.failCid = 0, false, c.String()
					d.mu.Unlock()
				}
				faultAll = true
				desc += " fault=first-chunk:" + c.String()
			}
		}

		// run the adder
		runAdd := func() (cid.Cid, error, []*api.AddedOutput) {
			var in []files.DirEntry
			for _, e := range entries {
				in = append(in, files.FileEntry(e.name, toFiles(e)))
			}
			out := make(chan *api.AddedOutput, 64)
			var outs []*api.AddedOutput
			var wg sync.WaitGroup
			wg.Add(1)
			go func() {
				defer wg.Done()
				for o := range out {
					outs = append(outs, o)
				}
			}()
			var dgs adder.ClusterDAGService
			if shard {
				dgs = sharding.New(client, po, out)
			} else {
				dgs = single.New(client, po, local)
			}
			a := adder.New(dgs, params, out)
			cctx, cancel := context.WithTimeout(ctx, 60*time.Second)
			root, err := a.FromFiles(cctx, files.NewSliceDirectory(in))
			cancel()
			wg.Wait()
			return root, err, outs
		}
		if flushFault {
			// dry run without faults to learn which shard node is written by a
			// flush that the first chunk of a multi-chunk file triggers; that
			// put then fails (once, everywhere) in the judged run
			saved := make([][3]interface{}, len(dests))
			for i, d := range dests {
				d.mu.Lock()
				saved[i] = [3]interface{}{d.failAt, d.always, d.failCbor}
				d.failAt, d.always, d.failCbor, d.failCid = 0, false, 0, ""
				d.mu.Unlock()
			}
			cluster.mu.Lock()
			fp := cluster.failPin
			cluster.failPin = false
			cluster.mu.Unlock()
			putLogMu.Lock()
			putLog = nil
			putLogMu.Unlock()
			runAdd()
			putLogMu.Lock()
			seq := append([]cid.Cid(nil), putLog...)
			putLogMu.Unlock()
			first := map[string]bool{}
			for _, c := range firstChunks(ref) {
				first[c.String()] = true
			}
			var cands []cid.Cid
			for i := 0; i+1 < len(seq); i++ {
				if seq[i].Prefix().Codec != cid.DagCBOR {
					continue
				}
				j := i + 1
				for j < len(seq) && seq[j].Equals(seq[i]) {
					j++
				}
				if j < len(seq) && first[seq[j].String()] {
					cands = append(cands, seq[i])
				}
			}
			// reset what the dry run left behind
			for i, d := range dests {
				d.mu.Lock()
				d.blocks = map[string][]byte{}
				d.order = nil
				d.nput, d.ncbor, d.failCidHit = 0, 0, false
				d.failAt, d.always, d.failCbor = saved[i][0].(int), saved[i][1].(bool), saved[i][2].(int)
				d.mu.Unlock()
			}
			cluster.mu.Lock()
			cluster.pins, cluster.ncall, cluster.failPin = nil, 0, fp
			cluster.mu.Unlock()
			if len(cands) > 0 && rapid.IntRange(0, 3).Draw(t, "useFlushCand") != 0 {
				c := cands[rapid.IntRange(0, len(cands)-1).Draw(t, "flushCand")]
				for _, d := range dests {
					d.mu.Lock()
					d.failAt, d.always, d.failCbor, d.failCid = 0, false, 0, c.String()
					d.mu.Unlock()
				}
				desc += " fault=shard-node-before-first-chunk:" + c.String()
				flushAligned = true
			}
		}
		root, err, outs := runAdd()
		_ = outs

		// gather what was delivered
		union := &blockDag{m: map[string][]byte{}}
		for _, d := range dests {
			d.mu.Lock()
			for k, v := range d.blocks {
				union.m[k] = v
			}
			d.mu.Unlock()
		}
		cluster.mu.Lock()
		pins := cluster.pins
		cluster.mu.Unlock()
		hasRootPin := false
		for _, p := range pins {
			if p.Cid.Equals(refRoot.Cid()) && (p.Type == api.DataType || p.Type == api.MetaType) {
				hasRootPin = true
			}
		}
		// block sizes of the reference import (to judge "block doesn't fit")
		maxBlock := 0
		for _, n := range ref.m {
			if l := len(n.RawData()); l > maxBlock {
				maxBlock = l
			}
		}
		classes := []string{}
		if shard {
			classes = append(classes, "sharded")
		}
		if err != nil {
			classes = append(classes, "failed")
			if flushAligned {
				classes = append(classes, "flush-fault-aligned")
			}
			if hasRootPin {
				t.Fatalf("the add failed (%v) but the root was pinned\ncase: %s", err, desc)
			}
			// a block as large as the shard limit cannot be placed; with the
			// tiny shard sizes this also happens to nodes the importer emits
			// outside the final DAG (its working directory), which the
			// reference import does not contain: the explicit error is taken
			// at its word there
			tooSmall := shard && (uint64(maxBlock) >= po.ShardSize || (po.ShardSize <= 200 && strings.Contains(err.Error(), "doesn't fit in empty shard")))
			if !fault && !pinFails && !tooSmall {
				t.Fatalf("no fault injected but the add failed: %v\ncase: %s", err, desc)
			}
			leg.Case(desc, true, classes...)
			return
		}
		if pinFails {
			t.Fatalf("the cluster refused to pin but the add reported success\ncase: %s", desc)
		}
		// (a block put that failed on every destination is caught below: if the add
		// reports success, the block must still be among the delivered ones, i.e.
		// it was not needed - the importer also emits nodes outside the final DAG)
		if !root.Equals(refRoot.Cid()) {
			t.Fatalf("returned root %s differs from the reference importer's root %s\ncase: %s", root, refRoot.Cid(), desc)
		}
		reach, cerr := closure(union, root)
		if cerr != nil {
			t.Fatalf("delivered blocks are not closed under links from the root: %v\ncase: %s", cerr, desc)
		}
		if !fault {
			for _, i := range perm[:nd] {
				if shard || local {
					break
				}
				d := dests[i]
				if _, err := closure(&blockDag{m: d.blocks}, root); err != nil {
					t.Fatalf("destination D%d: %v\ncase: %s", i, err, desc)
				}
			}
		}
		if err := readBack(union, root, expectTree); err != nil {
			t.Fatalf("content does not read back from the delivered blocks: %v\ncase: %s", err, desc)
		}
		// pin log
		if !shard {
			if len(pins) != 1 {
				t.Fatalf("%d pins logged, want exactly the root\ncase: %s", len(pins), desc)
			}
			p := pins[0]
			want := api.PinWithOpts(root, po)
			want.Mode, want.MaxDepth = api.PinModeRecursive, -1
			if a, b := cmpx.PinStr(want, optNorm), cmpx.PinStr(p, optNorm); a != b {
				t.Fatalf("root pin differs from the request: %s\ncase: %s", cmpx.Diff(a, b), desc)
			}
			wantAlloc := cluster.allocs[0]
			if po.ReplicationFactorMin < 0 {
				wantAlloc = nil
			}
			if plist(p.Allocations) != plist(wantAlloc) {
				t.Fatalf("root pinned with allocations %s, blocks were sent to %s\ncase: %s", plist(p.Allocations), plist(wantAlloc), desc)
			}
		} else {
			checkSharded(t, desc, pins, root, po, union, reach, many)
			nsh := 0
			for _, p := range pins {
				if p.Type == api.ShardType {
					nsh++
				}
			}
			classes = append(classes, fmt.Sprintf("shards:%d", min(nsh, 6)))
			if nsh >= 2 {
				classes = append(classes, "multi-shard")
			}
		}
		big := 0
		nfiles := 0
		countFiles(expectTree, chunk, &nfiles, &big)
		nt := (nfiles >= 2 && big >= 1) || fault || containsStr(classes, "multi-shard")
		if many {
			classes = append(classes, "many-links")
		}
		if fault {
			classes = append(classes, "fault-survived")
		}
		if flushAligned {
			classes = append(classes, "flush-fault-aligned")
		}
		leg.Case(desc, nt || forceHuge, classes...)
	})
}

func allFailedSameBlock(idx []int) bool {
	// all destinations share failAt, so the same block failed everywhere
	return true
}

func contains(l []peer.ID, p peer.ID) bool {
	for _, q := range l {
		if q == p {
			return true
		}
	}
	return false
}

func containsStr(l []string, s string) bool {
	for _, x := range l {
		if x == s {
			return true
		}
	}
	return false
}

func min(a, b int) int {
	if a < b {
		return a
	}
	return b
}

func countFiles(n *node, chunk int, nfiles, big *int) {
	if !n.dir {
		*nfiles++
		if len(n.content) > chunk {
			*big++
		}
		return
	}
	for _, c := range n.children {
		countFiles(c, chunk, nfiles, big)
	}
}

func entriesStr(es []*node) string {
	var s []string
	for _, e := range es {
		s = append(s, e.String())
	}
	return strings.Join(s, "+")
}

func checkSharded(t *rapid.T, desc string, pins []*api.Pin, root cid.Cid, po api.PinOptions, union *blockDag, reach map[string]bool, many bool) {
	var shards []*api.Pin
	var dagPin, meta *api.Pin
	for _, p := range pins {
		switch p.Type {
		case api.ShardType:
			shards = append(shards, p)
		case api.ClusterDAGType:
			if dagPin != nil {
				t.Fatalf("two cluster-DAG pins\ncase: %s", desc)
			}
			dagPin = p
		case api.MetaType:
			if meta != nil {
				t.Fatalf("two meta pins\ncase: %s", desc)
			}
			meta = p
		default:
			t.Fatalf("unexpected pin of type %v in a sharded add\ncase: %s", p.Type, desc)
		}
	}
	if meta == nil || dagPin == nil || len(shards) == 0 {
		t.Fatalf("sharded add must log a meta entry, a cluster-DAG entry and shard entries; got %d pins\ncase: %s", len(pins), desc)
	}
	if !meta.Cid.Equals(root) || meta.Reference == nil || !meta.Reference.Equals(dagPin.Cid) {
		t.Fatalf("meta entry must be the root and reference the cluster DAG\ncase: %s", desc)
	}
	want := api.PinWithOpts(root, po)
	want.Mode = api.PinModeRecursive
	wm := *meta
	wm.Type, wm.Reference, wm.MaxDepth = want.Type, nil, want.MaxDepth
	if a, b := cmpx.PinStr(want, optNorm), cmpx.PinStr(&wm, optNorm); a != b {
		t.Fatalf("meta entry does not carry the requested options: %s\ncase: %s", cmpx.Diff(a, b), desc)
	}
	if dagPin.MaxDepth != 0 || dagPin.ReplicationFactorMin != -1 || dagPin.ReplicationFactorMax != -1 || dagPin.Reference == nil || !dagPin.Reference.Equals(root) || len(dagPin.Allocations) != 0 {
		t.Fatalf("cluster-DAG entry must be direct, everywhere, and reference the root: %+v\ncase: %s", dagPin, desc)
	}
	// the cluster DAG links the shards
	dn, err := union.Get(context.Background(), dagPin.Cid)
	if err != nil {
		t.Fatalf("cluster DAG block was not delivered: %v\ncase: %s", err, desc)
	}
	if len(dn.Links()) != len(shards) {
		t.Fatalf("cluster DAG has %d links, %d shard entries were pinned\ncase: %s", len(dn.Links()), len(shards), desc)
	}
	covered := map[string]int{}
	for i, sp := range shards {
		found := false
		for _, l := range dn.Links() {
			if l.Cid.Equals(sp.Cid) {
				found = true
			}
		}
		if !found {
			t.Fatalf("shard %d is not linked from the cluster DAG\ncase: %s", i, desc)
		}
		if sp.ShardSize >= po.ShardSize {
			t.Fatalf("shard %d has size %d, limit %d\ncase: %s", i, sp.ShardSize, po.ShardSize, desc)
		}
		sn, err := union.Get(context.Background(), sp.Cid)
		if err != nil {
			t.Fatalf("shard %d root block not delivered: %v\ncase: %s", i, err, desc)
		}
		// depth needed to reach the content blocks from the shard root
		depth := 1
		var leaves []cid.Cid
		indirect := false
		for _, l := range sn.Links() {
			if _, delivered := union.m[l.Cid.String()]; !delivered {
				t.Fatalf("shard %d links %s which was not delivered\ncase: %s", i, l.Cid, desc)
			}
			if reach[l.Cid.String()] || l.Cid.Type() != cid.DagCBOR {
				// content, or a delivered block outside the final DAG (the importer
				// also emits intermediate directory nodes): a data block of the shard
				leaves = append(leaves, l.Cid)
				continue
			}
			// a cbor node that is not content: an indirect shard node
			in, err := union.Get(context.Background(), l.Cid)
			if err != nil {
				t.Fatalf("shard %d links %s which cannot be decoded: %v\ncase: %s", i, l.Cid, err, desc)
			}
			indirect = true
			for _, ll := range in.Links() {
				leaves = append(leaves, ll.Cid)
			}
		}
		if indirect {
			depth = 2
		}
		if int(sp.MaxDepth) < depth {
			t.Fatalf("shard %d is pinned with max-depth %d but its content blocks are %d levels below its root (%d links)\ncase: %s", i, sp.MaxDepth, depth, len(leaves), desc)
		}
		var size uint64
		for _, l := range leaves {
			covered[l.String()]++
			size += uint64(len(union.m[l.String()]))
		}
		if size != sp.ShardSize {
			t.Fatalf("shard %d records size %d, its blocks sum to %d\ncase: %s", i, sp.ShardSize, size, desc)
		}
		if len(sp.Allocations) == 0 {
			t.Fatalf("shard %d has no allocations\ncase: %s", i, desc)
		}
	}
	for k := range reach {
		if covered[k] != 1 {
			t.Fatalf("content block %s is covered by %d shards, want exactly 1\ncase: %s", k, covered[k], desc)
		}
	}
	for k, n := range covered {
		if n > 1 {
			t.Fatalf("block %s is covered by %d shards\ncase: %s", k, n, desc)
		}
	}
}

var _ = cbor.DecodeBlock
var _ = io.EOF

// firstChunks returns the first leaf of every multi-chunk file of the
// reference DAG, sorted.
func firstChunks(ref *memDag) []cid.Cid {
	internal := map[string]ipld.Node{}
	linked := map[string]bool{}
	for k, n := range ref.m {
		ls := n.Links()
		if len(ls) == 0 {
			continue
		}
		nameless := true
		for _, l := range ls {
			if l.Name != "" {
				nameless = false
			}
		}
		if nameless {
			internal[k] = n
		}
	}
	for _, n := range internal {
		for _, l := range n.Links() {
			linked[l.Cid.String()] = true
		}
	}
	var out []cid.Cid
	for k, n := range internal {
		if linked[k] {
			continue
		}
		cur := n
		for len(cur.Links()) > 0 {
			next, ok := ref.m[cur.Links()[0].Cid.String()]
			if !ok {
				break
			}
			cur = next
		}
		if len(cur.Links()) == 0 {
			out = append(out, cur.Cid())
		}
	}
	sort.Slice(out, func(i, j int) bool { return out[i].String() < out[j].String() })
	return out
}
