package c13

import (
	"context"
	"fmt"
	"io/ioutil"
	"net"
	"os"
	"path/filepath"
	"sync"
	"testing"
	"time"

	"verifharness/internal/ev"

	"github.com/ipfs/ipfs-cluster/api"
	"github.com/ipfs/ipfs-cluster/api/rest"
	restclient "github.com/ipfs/ipfs-cluster/api/rest/client"
	peer "github.com/libp2p/go-libp2p-core/peer"
	ma "github.com/multiformats/go-multiaddr"
	"pgregory.net/rapid"
)

var (
	restOnce sync.Once
	restAddr ma.Multiaddr
)

func startREST() {
	restOnce.Do(func() {
		l, _ := net.Listen("tcp", "127.0.0.1:0")
		port := l.Addr().(*net.TCPAddr).Port
		l.Close()
		cfg := &rest.Config{}
		cfg.Default()
		restAddr, _ = ma.NewMultiaddr(fmt.Sprintf("/ip4/127.0.0.1/tcp/%d", port))
		cfg.HTTPListenAddr = []ma.Multiaddr{restAddr}
		a, err := rest.NewAPI(context.Background(), cfg)
		if err != nil {
			panic(err)
		}
		a.SetClient(client)
		for i := 0; i < 300; i++ {
			c, err := net.Dial("tcp", fmt.Sprintf("127.0.0.1:%d", port))
			if err == nil {
				c.Close()
				break
			}
			time.Sleep(10 * time.Millisecond)
		}
	})
}

func writeTree(dir string, n *node) error {
	p := filepath.Join(dir, n.name)
	if n.link != "" {
		return os.Symlink(n.link, p)
	}
	if !n.dir {
		return ioutil.WriteFile(p, n.content, 0600)
	}
	if err := os.MkdirAll(p, 0700); err != nil {
		return err
	}
	for _, c := range n.children {
		if err := writeTree(p, c); err != nil {
			return err
		}
	}
	return nil
}

// withoutHidden drops dot-entries.
func withoutHidden(n *node) *node {
	if !n.dir {
		return n
	}
	out := &node{name: n.name, dir: true}
	for _, c := range n.children {
		if len(c.name) > 0 && c.name[0] == '.' {
			continue
		}
		out.children = append(out.children, withoutHidden(c))
	}
	return out
}

func hasHidden(n *node) bool {
	for _, c := range n.children {
		if len(c.name) > 0 && c.name[0] == '.' || hasHidden(c) {
			return true
		}
	}
	return false
}

// The whole path: client library -> multipart -> REST /add -> adder. This is
// where the hidden flag lives (it is applied when the client reads the tree).
func TestAddThroughREST(t *testing.T) {
	leg := ev.L("add-through-rest", "a generated directory tree written to disk and added with the bundled client (recursive, hidden on/off, wrap on/off, chunker, layout, raw leaves, CID version) through the real REST /add handler and adder; oracle: returned root = reference importer's root for the tree (minus dot-entries when hidden is off), the pinned root is that root, and the content reads back from the delivered blocks; non-trivial = the tree has a hidden entry or >= 2 files; distinct by rendering")
	startREST()
	base, _ := ioutil.TempDir(os.Getenv("VERIF_WORKDIR"), "c13-")
	defer os.RemoveAll(base)
	n := 0
	rapid.Check(t, func(t *rapid.T) {
		resetFixture()
		n++
		chunkSpec := rapid.SampledFrom([]string{"size-32", "size-256"}).Draw(t, "chunker")
		chunk := map[string]int{"size-32": 32, "size-256": 256}[chunkSpec]
		ic := importCfg{chunker: chunkSpec, hash: "sha2-256"}
		ic.trickle = rapid.Bool().Draw(t, "trickle")
		ic.cidV = rapid.IntRange(0, 1).Draw(t, "cidv")
		ic.rawLeaves = ic.cidV == 1 // the client sends cid-version; raw-leaves follows unless set
		top := drawTree(t, 2, chunk, false)
		top.dir = true
		top.content = nil
		top.name = fmt.Sprintf("tree%d", n)
		if len(top.children) == 0 {
			top.children = []*node{{name: "f", content: genContent(3, chunk+5)}}
		}
		hidden := rapid.Bool().Draw(t, "hidden")
		wrap := rapid.Bool().Draw(t, "wrap")
		dir := filepath.Join(base, fmt.Sprintf("case%d", n))
		os.MkdirAll(dir, 0700)
		defer os.RemoveAll(dir)
		if err := writeTree(dir, top); err != nil {
			t.Fatalf("harness: %v", err)
		}
		cluster.allocs = [][]peer.ID{{dests[0].h.ID()}}
		params := api.DefaultAddParams()
		params.Recursive = true
		params.Hidden = hidden
		params.Wrap = wrap
		params.Chunker, params.CidVersion, params.RawLeaves = ic.chunker, ic.cidV, ic.rawLeaves
		if ic.trickle {
			params.Layout = "trickle"
		}
		params.ReplicationFactorMin, params.ReplicationFactorMax = 1, 1
		c, err := restclient.NewDefaultClient(&restclient.Config{APIAddr: restAddr})
		if err != nil {
			t.Fatal(err)
		}
		out := make(chan *api.AddedOutput, 256)
		var outs []*api.AddedOutput
		var wg sync.WaitGroup
		wg.Add(1)
		go func() {
			defer wg.Done()
			for o := range out {
				outs = append(outs, o)
			}
		}()
		err = c.Add(context.Background(), []string{filepath.Join(dir, top.name)}, params, out)
		wg.Wait()
		desc := fmt.Sprintf("tree=%s hidden=%v wrap=%v %s trickle=%v cidv=%d", top, hidden, wrap, ic.chunker, ic.trickle, ic.cidV)
		if err != nil {
			t.Fatalf("client.Add failed: %v\ncase: %s", err, desc)
		}
		expect := top
		if !hidden {
			expect = withoutHidden(top)
		}
		ref := newMemDag()
		tree := expect
		if wrap {
			tree = &node{name: "", dir: true, children: []*node{expect}}
		}
		refRoot, rerr := refImport(ref, tree, ic)
		if rerr != nil {
			t.Fatalf("harness: %v", rerr)
		}
		cluster.mu.Lock()
		pins := cluster.pins
		cluster.mu.Unlock()
		if len(pins) != 1 || !pins[0].Cid.Equals(refRoot.Cid()) {
			var got string
			if len(pins) > 0 {
				got = pins[0].Cid.String()
			}
			t.Fatalf("pinned root %s (of %d pins) differs from the reference root %s\ncase: %s", got, len(pins), refRoot.Cid(), desc)
		}
		if len(outs) == 0 || !outs[len(outs)-1].Cid.Equals(refRoot.Cid()) {
			t.Fatalf("the last add output is not the root\ncase: %s", desc)
		}
		union := &blockDag{m: dests[0].blocks}
		if err := readBack(union, refRoot.Cid(), tree); err != nil {
			t.Fatalf("content does not read back: %v\ncase: %s", err, desc)
		}
		nf, big := 0, 0
		countFiles(top, chunk, &nf, &big)
		cl := ""
		if hasHidden(top) {
			cl = "has-hidden-entry"
		}
		leg.Case(desc, hasHidden(top) || nf >= 2, cl)
	})
}
