package c01

import (
	"fmt"
	"os"
	"path/filepath"
	"testing"
	"time"

	"verifharness/internal/fakes"
	"verifharness/internal/gen"

	"github.com/ipfs/ipfs-cluster/api"
	peer "github.com/libp2p/go-libp2p-core/peer"
)

// A follower that is down while the others unpin a CID and compact their log
// must not keep that CID after it comes back (snapshot installed over the
// state it rebuilt from its own older snapshot).
func TestRegressSnapshotInstallReplaces(t *testing.T) {
	dir := filepath.Join(workdir, "regress-snap")
	os.MkdirAll(dir, 0700)
	defer os.RemoveAll(dir)
	var peers []*fakes.RaftPeer
	var ids []peer.ID
	for i := 0; i < 3; i++ {
		p := fakes.NewRaftHost(gen.PeerKeys[i], filepath.Join(dir, fmt.Sprintf("p%d", i)))
		p.Tuning = fakes.RaftTuning{SnapshotThreshold: 2, SnapshotInterval: 50 * time.Millisecond, TrailingLogs: 0}
		peers = append(peers, p)
		ids = append(ids, p.H.ID())
	}
	defer func() {
		for _, p := range peers {
			p.Close()
		}
	}()
	fakes.KnowEachOther(peers)
	for _, p := range peers {
		p.Init = ids
		if err := p.Start(false); err != nil {
			t.Fatal(err)
		}
	}
	for _, p := range peers {
		if err := p.WaitReady(30 * time.Second); err != nil {
			t.Fatal(err)
		}
	}
	m := newModel()
	do := func(at int, unpin bool, p *api.Pin) {
		var err error
		if unpin {
			err = peers[at].Cons.LogUnpin(ctx, p)
		} else {
			err = peers[at].Cons.LogPin(ctx, p)
		}
		if err != nil {
			t.Skipf("operation not acknowledged: %v", err)
		}
		m.apply(op{unpin: unpin, pin: p})
	}
	do(0, false, api.PinCid(gen.Cids[0]))
	do(0, false, api.PinCid(gen.Cids[1]))
	// find a follower
	ld, _ := peers[0].Cons.Leader(ctx)
	f := 0
	for i, p := range peers {
		if p.H.ID() != ld {
			f = i
		}
	}
	if _, ok := waitCaughtUp(peers[f], m.prefixes[len(m.prefixes)-1], 30*time.Second); !ok {
		t.Fatal("follower did not catch up")
	}
	peers[f].Stop()
	other := (f + 1) % 3
	do(other, true, api.PinCid(gen.Cids[0]))
	for i := 2; i < 8; i++ {
		do(other, false, api.PinCid(gen.Cids[i]))
	}
	time.Sleep(500 * time.Millisecond) // snapshots + truncation
	if err := peers[f].Start(false); err != nil {
		t.Fatal(err)
	}
	if err := peers[f].WaitReady(40 * time.Second); err != nil {
		t.Fatal(err)
	}
	if got, ok := waitCaughtUp(peers[f], m.prefixes[len(m.prefixes)-1], 30*time.Second); !ok {
		t.Fatalf("the follower that was down does not converge to the committed pinset:\nfollower:\n%s\nwant:\n%s", got, m.prefixes[len(m.prefixes)-1])
	}
}
