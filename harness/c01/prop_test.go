// Package c01: with Raft, every replica's pinset equals the committed
// pin/unpin sequence.
package c01

import (
	"context"
	"fmt"
	"io/ioutil"
	"os"
	"path/filepath"
	"sort"
	"strings"
	"testing"
	"time"

	"verifharness/internal/cmpx"
	"verifharness/internal/ev"
	"verifharness/internal/fakes"
	"verifharness/internal/gen"
	"verifharness/internal/kf"

	cid "github.com/ipfs/go-cid"
	"github.com/ipfs/ipfs-cluster/api"
	"github.com/ipfs/ipfs-cluster/consensus/raft"
	"github.com/ipfs/ipfs-cluster/datastore/inmem"
	peer "github.com/libp2p/go-libp2p-core/peer"
	"pgregory.net/rapid"
)

var workdir string

func TestMain(m *testing.M) {
	if len(os.Args) > 1 && os.Args[1] == "raft-child" {
		childMain()
		return
	}
	var err error
	workdir, err = ioutil.TempDir(os.Getenv("VERIF_WORKDIR"), "c01-")
	if err != nil {
		panic(err)
	}
	code := m.Run()
	os.RemoveAll(workdir)
	ev.Flush()
	os.Exit(code)
}

// KFSnapshotMerge: a snapshot installed on a replica that already holds
// entries is merged into them instead of replacing them.
const KFSnapshotMerge = "C01-snapshot-install-merges"

var ctx = context.Background()

var norm = cmpx.Norm{DropUserAllocs: true, ExpirySeconds: true, ModeFromDepth: true, SortAllocs: true}

func render(pins []*api.Pin) string {
	var s []string
	for _, p := range pins {
		s = append(s, cmpx.PinStr(p, norm))
	}
	sort.Strings(s)
	return strings.Join(s, "\n")
}

type op struct {
	unpin    bool
	pin      *api.Pin
	at       int
	restores []int64 // per peer: snapshot restores seen before the operation was submitted
}

type model struct {
	log      []op
	prefixes []string // prefixes[k] = rendering after k ops
	cur      map[string]*api.Pin
}

func newModel() *model {
	return &model{prefixes: []string{""}, cur: map[string]*api.Pin{}}
}

func (m *model) apply(o op) {
	if o.unpin {
		delete(m.cur, o.pin.Cid.String())
	} else {
		m.cur[o.pin.Cid.String()] = o.pin
	}
	m.log = append(m.log, o)
	var pins []*api.Pin
	for _, p := range m.cur {
		pins = append(pins, p)
	}
	m.prefixes = append(m.prefixes, render(pins))
}

func (m *model) isPrefix(s string) int {
	for k := len(m.prefixes) - 1; k >= 0; k-- {
		if m.prefixes[k] == s {
			return k
		}
	}
	return -1
}

func cn(c cid.Cid) string {
	for i, u := range gen.Cids {
		if u.Equals(c) {
			return fmt.Sprintf("c%d", i)
		}
	}
	return c.String()
}

const rule = "state machine on 1-3 real Raft peers (hashicorp raft, BoltDB log, file snapshots in temp dirs, libp2p transport on loopback) with tiny snapshot threshold (2-5), snapshot interval (50-200 ms), trailing logs (0-2) and commit_retries 0-2: pin (well-formed pins of every type with all options, submitted at any live member so that followers redirect), unpin, an operation submitted at a follower while the leader refuses every redirected call (must not be acknowledged), restart(i), stop(i) ... start(i) while the others commit and snapshot (catch-up by log replay or by installing a snapshot over the state rebuilt from the peer's own older snapshot), offline read after a clean shutdown; model = acknowledged sequence and its prefix states; oracle after every step: every live member's pinset is a prefix state (time-free), the leader shows an acknowledged operation at once, a caught-up member equals the whole sequence, OfflineState after a clean shutdown equals the state at shutdown, every operation applied since a peer's start was handed to its tracker with equal content; non-trivial = an unpin or re-pin of a pinned CID and afterwards a restart, stop/start or enough operations for a snapshot; distinct by script"

func waitCaughtUp(p *fakes.RaftPeer, want string, d time.Duration) (string, bool) {
	deadline := time.Now().Add(d)
	var got string
	for {
		pins, err := p.Pins()
		if err == nil {
			got = render(pins)
			if got == want {
				return got, true
			}
		}
		if time.Now().After(deadline) {
			return got, false
		}
		time.Sleep(5 * time.Millisecond)
	}
}

func TestRaftLog(t *testing.T) {
	leg := ev.L("raft-log", rule)
	caseNo := 0
	rapid.Check(t, func(t *rapid.T) {
		caseNo++
		n := rapid.IntRange(1, 3).Draw(t, "peers")
		// commit_retries 0 is legal: one attempt, no retry
		retries := rapid.SampledFrom([]int{0, 1, 2, 2}).Draw(t, "commitRetries")
		tuning := fakes.RaftTuning{
			SnapshotThreshold: uint64(rapid.IntRange(2, 5).Draw(t, "snapThreshold")),
			SnapshotInterval:  time.Duration(rapid.IntRange(50, 200).Draw(t, "snapIntervalMs")) * time.Millisecond,
			TrailingLogs:      uint64(rapid.IntRange(0, 2).Draw(t, "trailing")),
		}
		dir := filepath.Join(workdir, fmt.Sprintf("case%d", caseNo))
		os.MkdirAll(dir, 0700)
		defer os.RemoveAll(dir)
		var peers []*fakes.RaftPeer
		var ids []peer.ID
		for i := 0; i < n; i++ {
			p := fakes.NewRaftHost(gen.PeerKeys[i], filepath.Join(dir, fmt.Sprintf("p%d", i)))
			p.Tuning = tuning
			p.Retries = &retries
			peers = append(peers, p)
			ids = append(ids, p.H.ID())
		}
		defer func() {
			for _, p := range peers {
				p.Close()
			}
		}()
		fakes.KnowEachOther(peers)
		for _, p := range peers {
			p.Init = ids
			if err := p.Start(false); err != nil {
				t.Fatalf("VERIF-INFRA start: %v", err)
			}
		}
		for _, p := range peers {
			if err := p.WaitReady(30 * time.Second); err != nil {
				t.Fatalf("VERIF-INFRA: %v", err)
			}
		}
		m := newModel()
		script := []string{fmt.Sprintf("peers=%d threshold=%d interval=%v trailing=%d commit_retries=%d", n, tuning.SnapshotThreshold, tuning.SnapshotInterval, tuning.TrailingLogs, retries)}
		startedAt := make([]int, n) // log length when the peer was last started
		classes := map[string]bool{}
		rewrote := false // an unpin or re-pin of a pinned CID happened
		opsSince := map[int]int{}
		fail := func(format string, a ...interface{}) {
			t.Fatalf("%s\nscript: %s", fmt.Sprintf(format, a...), strings.Join(script, " ; "))
		}
		live := func() []int {
			var l []int
			for i, p := range peers {
				if p.Up() {
					l = append(l, i)
				}
			}
			return l
		}
		prefixSafety := func(when string) {
			for _, i := range live() {
				pins, err := peers[i].Pins()
				if err != nil {
					continue
				}
				s := render(pins)
				if m.isPrefix(s) < 0 {
					if classes["installed-on-non-empty"] && kf.Open(KFSnapshotMerge) {
						leg.Excl("non-prefix state after a stop/start with a snapshot in between (" + KFSnapshotMerge + ")")
						t.Skip("excluded")
					}
					fail("%s: peer %d holds a pinset that is not the result of any prefix of the committed sequence (%d operations)\npeer %d:\n%s\nwhole sequence:\n%s", when, i, len(m.log), i, s, m.prefixes[len(m.prefixes)-1])
				}
			}
		}
		restoreCounts := func() []int64 {
			out := make([]int64, len(peers))
			for j, q := range peers {
				out[j] = q.Restores()
			}
			return out
		}
		submit := func(t *rapid.T, unpin bool, p *api.Pin) {
			l := live()
			i := l[rapid.IntRange(0, len(l)-1).Draw(t, "at")]
			before := restoreCounts()
			var err error
			if unpin {
				err = peers[i].Cons.LogUnpin(ctx, p)
				script = append(script, fmt.Sprintf("unpin@%d(%s)", i, cn(p.Cid)))
			} else {
				err = peers[i].Cons.LogPin(ctx, p)
				script = append(script, fmt.Sprintf("pin@%d(%s,%s,%s)", i, cn(p.Cid), p.Type, p.Name))
			}
			if err != nil {
				// not acknowledged: the operation may or may not be part of the sequence
				leg.Inconclusive(fmt.Sprintf("operation returned an error: %v", err))
				t.Skip("unacknowledged operation")
			}
			if _, had := m.cur[p.Cid.String()]; had {
				rewrote = true
			}
			m.apply(op{unpin: unpin, pin: p, at: i, restores: before})
			for j := range peers {
				opsSince[j]++
			}
			if ld, err := peers[i].Cons.Leader(ctx); err == nil {
				for _, j := range live() {
					if peers[j].H.ID() == ld {
						classes["follower-submitted"] = classes["follower-submitted"] || j != i
						if got, ok := waitCaughtUp(peers[j], m.prefixes[len(m.prefixes)-1], 5*time.Second); !ok {
							fail("operation %d was acknowledged but the leader (peer %d) does not show it\nleader:\n%s\nwant:\n%s", len(m.log), j, got, m.prefixes[len(m.prefixes)-1])
						}
					}
				}
			}
			prefixSafety("after an operation")
		}
		t.Repeat(map[string]func(*rapid.T){
			"pin": func(t *rapid.T) {
				c := gen.Full
				c.NCids = 4
				c.UnixZero = false
				p := gen.Pin(c).Draw(t, "pin")
				p.Name = fmt.Sprintf("n%d", len(script))
				classes["type:"+p.Type.String()] = true
				if len(p.Origins) > 0 {
					classes["with-origins"] = true
				}
				submit(t, false, p)
			},
			"unpin": func(t *rapid.T) {
				submit(t, true, api.PinCid(gen.CidN(4).Draw(t, "cid")))
			},
			"refusedRedirect": func(t *rapid.T) {
				// an operation submitted at a follower while the leader refuses
				// every redirected call: it cannot have been committed, so it
				// must not be acknowledged
				l := live()
				if len(l) < 2 {
					t.Skip("needs a follower")
				}
				before := restoreCounts()
				var leader, follower = -1, -1
				for _, j := range l {
					ld, err := peers[j].Cons.Leader(ctx)
					if err != nil {
						t.Skip("no leader")
					}
					if peers[j].H.ID() == ld {
						leader = j
					}
				}
				for _, j := range l {
					if j != leader {
						follower = j
					}
				}
				if leader < 0 || follower < 0 {
					t.Skip("no leader/follower pair")
				}
				p := api.PinCid(gen.CidN(4).Draw(t, "cid"))
				p.Name = fmt.Sprintf("refused%d", len(script))
				unpin := rapid.Bool().Draw(t, "unpin")
				peers[leader].SetRefuse(1000)
				var err error
				if unpin {
					err = peers[follower].Cons.LogUnpin(ctx, p)
				} else {
					err = peers[follower].Cons.LogPin(ctx, p)
				}
				refused := peers[leader].RefusedCount()
				peers[leader].SetRefuse(0)
				script = append(script, fmt.Sprintf("refused(unpin=%v)@%d(%s) leader=%d refusals=%d", unpin, follower, cn(p.Cid), leader, refused))
				attempts := peers[follower].Cfg.CommitRetries + 1
				switch {
				case err == nil && refused >= attempts:
					// every attempt was a redirect and every redirect was refused
					fail("peer %d acknowledged an operation although all %d redirects to the leader (peer %d) were refused: it was never committed", follower, refused, leader)
				case err == nil:
					// leadership moved during the retries (the submitting peer became
					// leader and committed it itself, or a later redirect reached a
					// new leader): a normal acknowledgement
					if _, had := m.cur[p.Cid.String()]; had {
						rewrote = true
					}
					m.apply(op{unpin: unpin, pin: p, at: follower, restores: before})
					for j := range peers {
						opsSince[j]++
					}
				case refused < attempts:
					// an attempt that was not refused failed: it may or may not have
					// been committed
					leg.Inconclusive(fmt.Sprintf("operation returned an error: %v", err))
					t.Skip("unacknowledged operation")
				}
				classes["refused-redirect"] = true
				prefixSafety("after a refused redirect")
			},
			"restart": func(t *rapid.T) {
				l := live()
				i := l[rapid.IntRange(0, len(l)-1).Draw(t, "who")]
				if n == 3 && len(l) < 3 {
					t.Skip("would lose quorum")
				}
				script = append(script, fmt.Sprintf("restart(%d)", i))
				if _, ok := waitCaughtUp(peers[i], m.prefixes[len(m.prefixes)-1], 30*time.Second); !ok {
					fail("peer %d did not catch up before its restart", i)
				}
				if err := peers[i].Stop(); err != nil {
					fail("Shutdown: %v", err)
				}
				if err := peers[i].Start(false); err != nil {
					fail("VERIF-INFRA restart: %v", err)
				}
				if err := peers[i].WaitReady(40 * time.Second); err != nil {
					fail("peer %d did not become ready after a restart: %v", i, err)
				}
				startedAt[i] = len(m.log)
				peers[i].Rec.Take()
				if got, ok := waitCaughtUp(peers[i], m.prefixes[len(m.prefixes)-1], 30*time.Second); !ok {
					fail("after a restart peer %d does not hold the whole committed sequence\npeer:\n%s\nwant:\n%s", i, got, m.prefixes[len(m.prefixes)-1])
				}
				classes["restart"] = true
				if rewrote {
					classes["nontrivial"] = true
				}
			},
			"stop": func(t *rapid.T) {
				l := live()
				if n < 3 || len(l) < 3 {
					t.Skip("needs a quorum without the peer")
				}
				i := l[rapid.IntRange(0, len(l)-1).Draw(t, "who")]
				script = append(script, fmt.Sprintf("stop(%d)", i))
				want := m.prefixes[len(m.prefixes)-1]
				if _, ok := waitCaughtUp(peers[i], want, 30*time.Second); !ok {
					fail("peer %d did not catch up before being stopped", i)
				}
				if err := peers[i].Stop(); err != nil {
					fail("Shutdown: %v", err)
				}
				opsSince[i] = 0
				// offline read after a clean shutdown
				st, err := raft.OfflineState(peers[i].Cfg, inmem.New())
				if err != nil {
					fail("OfflineState: %v", err)
				}
				pins, _ := st.List(ctx)
				if got := render(pins); got != want {
					fail("OfflineState of peer %d after a clean shutdown differs from the state it had\noffline:\n%s\nwant:\n%s", i, got, want)
				}
				classes["offline-read"] = true
				// give the others time to elect a leader if this was the leader
				time.Sleep(500 * time.Millisecond)
			},
			"start": func(t *rapid.T) {
				var down []int
				for i, p := range peers {
					if !p.Up() {
						down = append(down, i)
					}
				}
				if len(down) == 0 {
					t.Skip("nobody is down")
				}
				i := down[0]
				script = append(script, fmt.Sprintf("start(%d) after %d ops", i, opsSince[i]))
				if uint64(opsSince[i]) >= tuning.SnapshotThreshold+tuning.TrailingLogs {
					classes["installed-on-non-empty"] = true
				}
				if err := peers[i].Start(false); err != nil {
					fail("VERIF-INFRA start: %v", err)
				}
				if err := peers[i].WaitReady(40 * time.Second); err != nil {
					fail("peer %d did not become ready after being started: %v", i, err)
				}
				startedAt[i] = len(m.log)
				peers[i].Rec.Take()
				prefixSafety("after a peer came back")
				if got, ok := waitCaughtUp(peers[i], m.prefixes[len(m.prefixes)-1], 30*time.Second); !ok {
					if classes["installed-on-non-empty"] && kf.Open(KFSnapshotMerge) {
						leg.Excl("peer caught up through a snapshot over non-empty state (" + KFSnapshotMerge + ")")
						t.Skip("excluded")
					}
					fail("peer %d came back after %d operations but does not reach the whole committed sequence\npeer:\n%s\nwant:\n%s", i, opsSince[i], got, m.prefixes[len(m.prefixes)-1])
				}
				if rewrote {
					classes["nontrivial"] = true
				}
			},
			"": func(t *rapid.T) { prefixSafety("invariant") },
		})
		// end: everybody up and caught up
		for i, p := range peers {
			if !p.Up() {
				script = append(script, fmt.Sprintf("start(%d) at end", i))
				if uint64(opsSince[i]) >= tuning.SnapshotThreshold+tuning.TrailingLogs {
					classes["installed-on-non-empty"] = true
				}
				if err := p.Start(false); err != nil {
					fail("VERIF-INFRA start: %v", err)
				}
				if err := p.WaitReady(40 * time.Second); err != nil {
					fail("peer %d did not become ready: %v", i, err)
				}
				startedAt[i] = len(m.log)
				p.Rec.Take()
			}
		}
		want := m.prefixes[len(m.prefixes)-1]
		for i, p := range peers {
			if got, ok := waitCaughtUp(p, want, 30*time.Second); !ok {
				if classes["installed-on-non-empty"] && kf.Open(KFSnapshotMerge) {
					leg.Excl("final state after a snapshot over non-empty state (" + KFSnapshotMerge + ")")
					t.Skip("excluded")
				}
				fail("at the end peer %d does not hold the whole committed sequence (%d operations)\npeer:\n%s\nwant:\n%s", i, len(m.log), got, want)
			}
		}
		if uint64(len(m.log)) >= tuning.SnapshotThreshold && rewrote {
			classes["nontrivial"] = true
		}
		// tracker hand-off for operations applied since each peer's last start
		time.Sleep(30 * time.Millisecond)
		for i, p := range peers {
			tracked := map[string]int{}
			untracked := map[string]int{}
			for _, c := range p.Rec.Take() {
				switch c.Name {
				case "PinTracker.Track":
					tracked[cmpx.PinStr(c.Arg.(*api.Pin), norm)]++
				case "PinTracker.Untrack":
					untracked[c.Arg.(*api.Pin).Cid.String()]++
				}
			}
			for k := startedAt[i]; k < len(m.log); k++ {
				o := m.log[k]
				if p.Restores() > o.restores[i] {
					// the peer restored a snapshot after this operation was
					// submitted: the operation may have reached it inside the
					// snapshot (a follower that lags by one entry when the
					// leader compacts its log), and a restore is not handed
					// to the tracker entry by entry
					classes["hand-off-not-judged-after-restore"] = true
					continue
				}
				if o.unpin {
					if untracked[o.pin.Cid.String()] == 0 {
						fail("peer %d applied unpin #%d of %s but never handed it to its tracker", i, k, cn(o.pin.Cid))
					}
				} else if tracked[cmpx.PinStr(o.pin, norm)] == 0 {
					fail("peer %d applied pin #%d (%s %s) but its tracker never received a pin with the same CID, type, depth and allocations", i, k, cn(o.pin.Cid), o.pin.Name)
				}
			}
		}
		var cl []string
		for k, v := range classes {
			if k != "nontrivial" && v {
				cl = append(cl, k)
			}
		}
		sort.Strings(cl)
		cl = append(cl, fmt.Sprintf("peers:%d", n))
		leg.Case(strings.Join(script, " ; "), classes["nontrivial"], cl...)
	})
}
