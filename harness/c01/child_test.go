package c01

func childMain() {}
