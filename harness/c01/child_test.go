package c01

import (
	"bufio"
	"fmt"
	"io"
	"os"
	"os/exec"
	"sort"
	"strconv"
	"strings"
	"testing"
	"time"

	"verifharness/internal/ev"
	"verifharness/internal/fakes"
	"verifharness/internal/gen"

	"github.com/ipfs/ipfs-cluster/api"
	peer "github.com/libp2p/go-libp2p-core/peer"
	"pgregory.net/rapid"
)

// C01-b: crash harness. A single-member Raft peer runs in a child process
// (this test binary re-executed as "raft-child <folder> <threshold>
// <intervalMs> <trailing>"); the parent sends operations over stdin, reads
// acknowledgements from stdout and kills the child with SIGKILL at a drawn
// point. The peer is restarted on the same folder and must list the pinset
// of the acknowledged sequence (optionally followed by the one operation
// that was in flight when the kill came).

func childMain() {
	folder := os.Args[2]
	thr, _ := strconv.Atoi(os.Args[3])
	iv, _ := strconv.Atoi(os.Args[4])
	trail, _ := strconv.Atoi(os.Args[5])
	p := fakes.NewRaftHost(gen.PeerKeys[0], folder)
	p.Init = []peer.ID{p.H.ID()}
	p.Tuning = fakes.RaftTuning{SnapshotThreshold: uint64(thr), SnapshotInterval: time.Duration(iv) * time.Millisecond, TrailingLogs: uint64(trail)}
	out := bufio.NewWriter(os.Stdout)
	say := func(s string) { out.WriteString(s + "\n"); out.Flush() }
	if err := p.Start(false); err != nil {
		say("FATAL " + err.Error())
		os.Exit(3)
	}
	if err := p.WaitReady(60 * time.Second); err != nil {
		say("FATAL " + err.Error())
		os.Exit(3)
	}
	say("READY")
	in := bufio.NewScanner(os.Stdin)
	for in.Scan() {
		f := strings.SplitN(in.Text(), " ", 3)
		switch f[0] {
		case "pin", "unpin":
			i, _ := strconv.Atoi(f[1])
			pin := api.PinCid(gen.Cids[i])
			pin.ReplicationFactorMin, pin.ReplicationFactorMax = -1, -1
			var err error
			if f[0] == "pin" {
				if len(f) > 2 {
					pin.Name = f[2]
				}
				err = p.Cons.LogPin(ctx, pin)
			} else {
				err = p.Cons.LogUnpin(ctx, pin)
			}
			if err != nil {
				say("err " + strings.ReplaceAll(err.Error(), "\n", " "))
			} else {
				say("ack")
			}
		case "list":
			pins, err := p.Pins()
			if err != nil {
				say("err " + err.Error())
				continue
			}
			var l []string
			for _, pn := range pins {
				l = append(l, pn.Cid.String()+"="+pn.Name)
			}
			say("list " + strings.Join(l, ";"))
		case "quit":
			p.Stop()
			say("bye")
			os.Exit(0)
		}
	}
	// stdin closed: parent is gone
	os.Exit(0)
}

type child struct {
	cmd *exec.Cmd
	in  io.WriteCloser
	out *bufio.Reader
}

func startChild(folder string, thr, iv, trail int) (*child, error) {
	cmd := exec.Command(os.Args[0], "raft-child", folder, strconv.Itoa(thr), strconv.Itoa(iv), strconv.Itoa(trail))
	cmd.Env = append(os.Environ(), "GOLOG_LOG_LEVEL=fatal")
	cmd.Stderr = nil
	in, err := cmd.StdinPipe()
	if err != nil {
		return nil, err
	}
	outp, err := cmd.StdoutPipe()
	if err != nil {
		return nil, err
	}
	if err := cmd.Start(); err != nil {
		return nil, err
	}
	c := &child{cmd: cmd, in: in, out: bufio.NewReader(outp)}
	line, err := c.read(90 * time.Second)
	if err != nil || line != "READY" {
		c.kill()
		return nil, fmt.Errorf("child did not become ready: %q %v", line, err)
	}
	return c, nil
}

func (c *child) read(d time.Duration) (string, error) {
	type res struct {
		s   string
		err error
	}
	ch := make(chan res, 1)
	go func() {
		s, err := c.out.ReadString('\n')
		ch <- res{strings.TrimRight(s, "\n"), err}
	}()
	select {
	case r := <-ch:
		return r.s, r.err
	case <-time.After(d):
		return "", fmt.Errorf("no answer from the child within %v", d)
	}
}

func (c *child) send(s string) { io.WriteString(c.in, s+"\n") }

func (c *child) kill() {
	c.cmd.Process.Kill()
	c.cmd.Wait()
}

type crashOp struct {
	unpin bool
	cid   int
	name  string
}

func (o crashOp) line() string {
	if o.unpin {
		return fmt.Sprintf("unpin %d", o.cid)
	}
	return fmt.Sprintf("pin %d %s", o.cid, o.name)
}

func applyOps(ops []crashOp) string {
	m := map[string]string{}
	for _, o := range ops {
		k := gen.Cids[o.cid].String()
		if o.unpin {
			delete(m, k)
		} else {
			m[k] = o.name
		}
	}
	var l []string
	for k, v := range m {
		l = append(l, k+"="+v)
	}
	sort.Strings(l)
	return strings.Join(l, ";")
}

const ruleCrash = "single-member Raft peer in a child process (real consensus/raft, BoltDB log and file snapshots in a temp folder, snapshot threshold 2-5, interval 50-200 ms, trailing logs 0-2); 1-3 rounds of 1-8 pin/unpin operations over 3 CIDs, each round ended by SIGKILL either right after the last acknowledgement or a drawn 0-3000 microseconds after one more operation was submitted (in flight); after each restart on the same folder the listing must equal the model of the acknowledged sequence, optionally followed by the in-flight operation; non-trivial = an unpin or a re-pin of a pinned CID happened before a kill and at least one kill had an operation in flight or came after the snapshot threshold was passed; distinct by script"

func TestCrash(t *testing.T) {
	leg := ev.L("crash", ruleCrash)
	caseN := 0
	rapid.Check(t, func(t *rapid.T) {
		caseN++
		folder := fmt.Sprintf("%s/crash-%d", workdir, caseN)
		os.MkdirAll(folder, 0o755)
		defer os.RemoveAll(folder)
		thr := rapid.IntRange(2, 5).Draw(t, "snapThreshold")
		iv := rapid.IntRange(50, 200).Draw(t, "snapIntervalMs")
		trail := rapid.IntRange(0, 2).Draw(t, "trailing")
		rounds := rapid.IntRange(1, 3).Draw(t, "rounds")
		var acked []crashOp
		var script []string
		rewrite, inflightKill, pastThreshold := false, false, false
		present := map[int]bool{}
		for r := 0; r < rounds; r++ {
			c, err := startChild(folder, thr, iv, trail)
			if err != nil {
				leg.Inconclusive("child start: " + err.Error())
				t.Skip("child did not start")
			}
			// the restarted peer must hold exactly what was acknowledged
			// (checked below for r > 0 via the pending expectation)
			n := rapid.IntRange(1, 8).Draw(t, "ops")
			for i := 0; i < n; i++ {
				o := crashOp{unpin: rapid.IntRange(0, 2).Draw(t, "unpin") == 0, cid: rapid.IntRange(0, 2).Draw(t, "cid"), name: rapid.SampledFrom([]string{"a", "b", "c"}).Draw(t, "name")}
				c.send(o.line())
				ans, err := c.read(60 * time.Second)
				if err != nil || ans != "ack" {
					c.kill()
					leg.Inconclusive("operation not acknowledged: " + ans)
					t.Skip("operation not acknowledged")
				}
				if o.unpin || present[o.cid] {
					rewrite = true
				}
				present[o.cid] = !o.unpin
				acked = append(acked, o)
				script = append(script, o.line())
			}
			if len(acked) > thr {
				pastThreshold = true
			}
			var inflight *crashOp
			if rapid.IntRange(0, 1).Draw(t, "killInFlight") == 1 {
				o := crashOp{unpin: rapid.IntRange(0, 2).Draw(t, "unpin") == 0, cid: rapid.IntRange(0, 2).Draw(t, "cid"), name: "x"}
				d := rapid.IntRange(0, 3000).Draw(t, "delayMicros")
				c.send(o.line())
				time.Sleep(time.Duration(d) * time.Microsecond)
				inflight = &o
				inflightKill = true
				script = append(script, fmt.Sprintf("%s [in flight, kill after %dus]", o.line(), d))
			} else if rapid.IntRange(0, 1).Draw(t, "waitSnapshot") == 1 {
				// let the snapshot timer fire before the kill
				time.Sleep(time.Duration(iv*2) * time.Millisecond)
				script = append(script, "wait-snapshot")
			}
			c.kill()
			script = append(script, "KILL")
			// restart and compare
			c2, err := startChild(folder, thr, iv, trail)
			if err != nil {
				t.Fatalf("the peer does not come back after kill -9: %v\nscript: %v", err, script)
			}
			c2.send("list")
			ans, err := c2.read(60 * time.Second)
			c2.kill()
			if err != nil || !strings.HasPrefix(ans, "list ") {
				t.Fatalf("no listing after restart: %q %v\nscript: %v", ans, err, script)
			}
			got := strings.TrimPrefix(ans, "list ")
			want := applyOps(acked)
			if got != want {
				if inflight != nil {
					with := append(append([]crashOp{}, acked...), *inflight)
					if got == applyOps(with) {
						acked = with
						if inflight.unpin || present[inflight.cid] {
							rewrite = true
						}
						present[inflight.cid] = !inflight.unpin
						continue
					}
				}
				t.Fatalf("after kill -9 and restart the peer lists [%s]; the acknowledged sequence gives [%s]\nscript: %v", got, want, script)
			}
		}
		cls := []string{}
		if inflightKill {
			cls = append(cls, "in-flight-kill")
		}
		if pastThreshold {
			cls = append(cls, "past-snapshot-threshold")
		}
		leg.Case(fmt.Sprintf("thr=%d iv=%d trail=%d %s", thr, iv, trail, strings.Join(script, " | ")), rewrite && (inflightKill || pastThreshold), cls...)
	})
}

var _ = ev.Flush
var _ testing.T
