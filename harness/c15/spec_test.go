package c15

import (
	ipfscluster "github.com/ipfs/ipfs-cluster"
	"github.com/ipfs/ipfs-cluster/api/ipfsproxy"
	"github.com/ipfs/ipfs-cluster/api/rest"
	"github.com/ipfs/ipfs-cluster/config"
	"github.com/ipfs/ipfs-cluster/consensus/crdt"
	"github.com/ipfs/ipfs-cluster/consensus/raft"
	"github.com/ipfs/ipfs-cluster/datastore/badger"
	"github.com/ipfs/ipfs-cluster/datastore/leveldb"
	"github.com/ipfs/ipfs-cluster/informer/disk"
	"github.com/ipfs/ipfs-cluster/informer/numpin"
	"github.com/ipfs/ipfs-cluster/ipfsconn/ipfshttp"
	"github.com/ipfs/ipfs-cluster/monitor/pubsubmon"
	"github.com/ipfs/ipfs-cluster/observations"
	"github.com/ipfs/ipfs-cluster/pintracker/stateless"
)

// The field specification is hand-written from the documentation of every
// section's JSON form. It is the independent oracle for "no setting is
// silently dropped": kind says how values are generated and compared.
const (
	kDur = iota
	kInt
	kUint
	kFloat
	kBool
	kString
	kMaddr
	kMaddrList
	kPeerList
	kStrList
	kEnumMetric
	kCreds
	kHeaders
	kSecret
	kPath
	kFloatList
)

type field struct {
	path string // dot separated JSON path inside the section
	kind int
	env  string // Go field name for the environment variable (scalars of the top level only), "" = none
}

type section struct {
	name   string
	envKey string
	mk     func() config.ComponentConfig
	fields []field
}

var sections = []section{
	{"cluster", "cluster", func() config.ComponentConfig { return &ipfscluster.Config{} }, []field{
		{"peername", kString, "PEERNAME"}, {"secret", kSecret, "SECRET"}, {"leave_on_shutdown", kBool, "LEAVEONSHUTDOWN"},
		{"listen_multiaddress", kMaddrList, ""}, {"enable_relay_hop", kBool, "ENABLERELAYHOP"},
		{"connection_manager.high_water", kInt, ""}, {"connection_manager.low_water", kInt, ""}, {"connection_manager.grace_period", kDur, ""},
		{"dial_peer_timeout", kDur, "DIALPEERTIMEOUT"}, {"state_sync_interval", kDur, "STATESYNCINTERVAL"}, {"pin_recover_interval", kDur, "PINRECOVERINTERVAL"},
		{"replication_factor_min", kInt, "REPLICATIONFACTORMIN"}, {"replication_factor_max", kInt, "REPLICATIONFACTORMAX"},
		{"monitor_ping_interval", kDur, "MONITORPINGINTERVAL"}, {"peer_watch_interval", kDur, "PEERWATCHINTERVAL"}, {"mdns_interval", kDur, "MDNSINTERVAL"},
		{"disable_repinning", kBool, "DISABLEREPINNING"}, {"follower_mode", kBool, "FOLLOWERMODE"}, {"peerstore_file", kPath, "PEERSTOREFILE"},
		{"peer_addresses", kMaddrList, ""},
	}},
	{"raft", "cluster_raft", func() config.ComponentConfig { return &raft.Config{} }, []field{
		{"data_folder", kPath, "DATAFOLDER"}, {"init_peerset", kPeerList, ""}, {"wait_for_leader_timeout", kDur, "WAITFORLEADERTIMEOUT"},
		{"network_timeout", kDur, "NETWORKTIMEOUT"}, {"commit_retries", kInt, "COMMITRETRIES"}, {"commit_retry_delay", kDur, "COMMITRETRYDELAY"},
		{"backups_rotate", kInt, "BACKUPSROTATE"}, {"datastore_namespace", kPath, "DATASTORENAMESPACE"},
		{"heartbeat_timeout", kDur, "HEARTBEATTIMEOUT"}, {"election_timeout", kDur, "ELECTIONTIMEOUT"}, {"commit_timeout", kDur, "COMMITTIMEOUT"},
		{"max_append_entries", kInt, "MAXAPPENDENTRIES"}, {"trailing_logs", kUint, "TRAILINGLOGS"}, {"snapshot_interval", kDur, "SNAPSHOTINTERVAL"},
		{"snapshot_threshold", kUint, "SNAPSHOTTHRESHOLD"}, {"leader_lease_timeout", kDur, "LEADERLEASETIMEOUT"},
	}},
	{"crdt", "cluster_crdt", func() config.ComponentConfig { return &crdt.Config{} }, []field{
		{"cluster_name", kString, "CLUSTERNAME"}, {"trusted_peers", kPeerList, ""}, {"batching.max_batch_size", kInt, ""}, {"batching.max_batch_age", kDur, ""},
		{"batching.max_queue_size", kInt, ""}, {"rebroadcast_interval", kDur, "REBROADCASTINTERVAL"}, {"peerset_metric", kString, "PEERSETMETRIC"},
		{"datastore_namespace", kPath, "DATASTORENAMESPACE"},
	}},
	{"restapi", "cluster_restapi", func() config.ComponentConfig { return &rest.Config{} }, []field{
		{"http_listen_multiaddress", kMaddrList, ""}, {"read_timeout", kDur, "READTIMEOUT"}, {"read_header_timeout", kDur, "READHEADERTIMEOUT"},
		{"write_timeout", kDur, "WRITETIMEOUT"}, {"idle_timeout", kDur, "IDLETIMEOUT"}, {"max_header_bytes", kInt, "MAXHEADERBYTES"},
		{"basic_auth_credentials", kCreds, ""}, {"http_log_file", kPath, "HTTPLOGFILE"}, {"headers", kHeaders, ""},
		{"cors_allowed_origins", kStrList, ""}, {"cors_allowed_methods", kStrList, ""}, {"cors_allowed_headers", kStrList, ""}, {"cors_exposed_headers", kStrList, ""},
		{"cors_allow_credentials", kBool, "CORSALLOWCREDENTIALS"}, {"cors_max_age", kDur, "CORSMAXAGE"},
	}},
	{"ipfsproxy", "cluster_ipfsproxy", func() config.ComponentConfig { return &ipfsproxy.Config{} }, []field{
		{"listen_multiaddress", kMaddrList, ""}, {"node_multiaddress", kMaddr, "NODEMULTIADDRESS"}, {"node_https", kBool, "NODEHTTPS"}, {"log_file", kPath, "LOGFILE"},
		{"read_timeout", kDur, "READTIMEOUT"}, {"read_header_timeout", kDur, "READHEADERTIMEOUT"}, {"write_timeout", kDur, "WRITETIMEOUT"}, {"idle_timeout", kDur, "IDLETIMEOUT"},
		{"max_header_bytes", kInt, "MAXHEADERBYTES"}, {"extract_headers_extra", kStrList, ""}, {"extract_headers_path", kString, "EXTRACTHEADERSPATH"}, {"extract_headers_ttl", kDur, "EXTRACTHEADERSTTL"},
	}},
	{"ipfshttp", "cluster_ipfshttp", func() config.ComponentConfig { return &ipfshttp.Config{} }, []field{
		{"node_multiaddress", kMaddr, "NODEMULTIADDRESS"}, {"connect_swarms_delay", kDur, "CONNECTSWARMSDELAY"}, {"ipfs_request_timeout", kDur, "IPFSREQUESTTIMEOUT"},
		{"pin_timeout", kDur, "PINTIMEOUT"}, {"unpin_timeout", kDur, "UNPINTIMEOUT"}, {"repogc_timeout", kDur, "REPOGCTIMEOUT"}, {"unpin_disable", kBool, "UNPINDISABLE"},
	}},
	{"stateless", "cluster_stateless", func() config.ComponentConfig { return &stateless.Config{} }, []field{
		{"max_pin_queue_size", kInt, "MAXPINQUEUESIZE"}, {"concurrent_pins", kInt, "CONCURRENTPINS"},
	}},
	{"pubsubmon", "cluster_pubsubmon", func() config.ComponentConfig { return &pubsubmon.Config{} }, []field{
		{"check_interval", kDur, "CHECKINTERVAL"}, {"failure_threshold", kFloat, "FAILURETHRESHOLD"},
	}},
	{"disk", "cluster_disk", func() config.ComponentConfig { return &disk.Config{} }, []field{
		{"metric_ttl", kDur, "METRICTTL"}, {"metric_type", kEnumMetric, "METRICTYPE"},
	}},
	{"numpin", "cluster_numpin", func() config.ComponentConfig { return &numpin.Config{} }, []field{
		{"metric_ttl", kDur, "METRICTTL"},
	}},
	{"metrics", "cluster_metrics", func() config.ComponentConfig { return &observations.MetricsConfig{} }, []field{
		{"enable_stats", kBool, "ENABLESTATS"}, {"prometheus_endpoint", kMaddr, "PROMETHEUSENDPOINT"}, {"reporting_interval", kDur, "REPORTINGINTERVAL"},
	}},
	{"tracing", "cluster_tracing", func() config.ComponentConfig { return &observations.TracingConfig{} }, []field{
		{"enable_tracing", kBool, "ENABLETRACING"}, {"jaeger_agent_endpoint", kMaddr, "JAEGERAGENTENDPOINT"}, {"sampling_prob", kFloat, "SAMPLINGPROB"}, {"service_name", kString, "SERVICENAME"},
	}},
	{"badger", "cluster_badger", func() config.ComponentConfig { return &badger.Config{} }, []field{
		{"folder", kPath, "FOLDER"}, {"gc_discard_ratio", kFloat, "GCDISCARDRATIO"}, {"gc_interval", kDur, "GCINTERVAL"}, {"gc_sleep", kDur, "GCSLEEP"},
		{"badger_options.sync_writes", kBool, ""}, {"badger_options.num_versions_to_keep", kInt, ""}, {"badger_options.max_table_size", kInt, ""},
		{"badger_options.level_size_multiplier", kInt, ""}, {"badger_options.max_levels", kInt, ""}, {"badger_options.value_threshold", kInt, ""},
		{"badger_options.num_memtables", kInt, ""}, {"badger_options.num_level_zero_tables", kInt, ""}, {"badger_options.num_level_zero_tables_stall", kInt, ""},
		{"badger_options.level_one_size", kInt, ""}, {"badger_options.value_log_file_size", kInt, ""}, {"badger_options.value_log_max_entries", kUint, ""},
		{"badger_options.num_compactors", kInt, ""}, {"badger_options.compact_l_0_on_close", kBool, ""}, {"badger_options.read_only", kBool, ""}, {"badger_options.truncate", kBool, ""},
	}},
	{"leveldb", "cluster_leveldb", func() config.ComponentConfig { return &leveldb.Config{} }, []field{
		{"folder", kPath, "FOLDER"},
		{"leveldb_options.block_cache_capacity", kInt, "LEVELDBOPTIONS_BLOCKCACHECAPACITY"}, {"leveldb_options.block_cache_evict_removed", kBool, ""}, {"leveldb_options.block_restart_interval", kInt, "LEVELDBOPTIONS_BLOCKRESTARTINTERVAL"},
		{"leveldb_options.block_size", kInt, "LEVELDBOPTIONS_BLOCKSIZE"}, {"leveldb_options.compaction_expand_limit_factor", kInt, ""}, {"leveldb_options.compaction_gp_overlaps_factor", kInt, ""},
		{"leveldb_options.compaction_l0_trigger", kInt, ""}, {"leveldb_options.compaction_source_limit_factor", kInt, ""}, {"leveldb_options.compaction_table_size", kInt, ""},
		{"leveldb_options.compaction_table_size_multiplier", kFloat, ""}, {"leveldb_options.compaction_table_size_multiplier_per_level", kFloatList, ""},
		{"leveldb_options.compaction_total_size", kInt, ""}, {"leveldb_options.compaction_total_size_multiplier", kFloat, ""}, {"leveldb_options.compaction_total_size_multiplier_per_level", kFloatList, ""},
		{"leveldb_options.compression", kUint, ""}, {"leveldb_options.disable_buffer_pool", kBool, ""}, {"leveldb_options.disable_block_cache", kBool, ""},
		{"leveldb_options.disable_compaction_backoff", kBool, ""}, {"leveldb_options.disable_large_batch_transaction", kBool, ""}, {"leveldb_options.iterator_sampling_rate", kInt, ""},
		{"leveldb_options.no_sync", kBool, ""}, {"leveldb_options.no_write_merge", kBool, ""}, {"leveldb_options.open_files_cache_capacity", kInt, "LEVELDBOPTIONS_OPENFILESCACHECAPACITY"},
		{"leveldb_options.read_only", kBool, ""}, {"leveldb_options.strict", kUint, ""}, {"leveldb_options.write_buffer", kInt, "LEVELDBOPTIONS_WRITEBUFFER"},
		{"leveldb_options.write_l0_pause_trigger", kInt, ""}, {"leveldb_options.write_l0_slowdown_trigger", kInt, ""},
	}},
}
