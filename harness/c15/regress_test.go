package c15

import (
	"encoding/json"
	"os"
	"testing"

	"github.com/ipfs/ipfs-cluster/api/ipfsproxy"
)

// fixed 7606b5d: CLUSTER_IPFSPROXY_NODEHTTPS=false on top of a loaded
// node_https: true was dropped (SetIfNotDefault never writes false).
func TestRegressEnvFalseOverridesLoadedTrue(t *testing.T) {
	c := &ipfsproxy.Config{}
	c.Default()
	raw, _ := c.ToJSON()
	var m map[string]interface{}
	json.Unmarshal(raw, &m)
	m["node_https"] = true
	raw, _ = json.Marshal(m)
	c = &ipfsproxy.Config{}
	if err := c.LoadJSON(raw); err != nil {
		t.Fatal(err)
	}
	if !c.NodeHTTPS {
		t.Fatal("node_https: true not loaded")
	}
	os.Setenv("CLUSTER_IPFSPROXY_NODEHTTPS", "false")
	defer os.Unsetenv("CLUSTER_IPFSPROXY_NODEHTTPS")
	if err := c.ApplyEnvVars(); err != nil {
		t.Fatal(err)
	}
	if c.NodeHTTPS {
		t.Fatal("CLUSTER_IPFSPROXY_NODEHTTPS=false was accepted on top of a loaded node_https: true, and the setting is still true")
	}
}
