// Package c15: configuration saves and loads losslessly, validates totally,
// hides secrets.
package c15

import (
	"bytes"
	"crypto/ecdsa"
	"crypto/elliptic"
	crand "crypto/rand"
	"crypto/x509"
	"crypto/x509/pkix"
	"encoding/json"
	"encoding/pem"
	"fmt"
	"io/ioutil"
	"math/big"
	"os"
	"path/filepath"
	"sort"
	"strings"
	"testing"
	"time"

	"verifharness/internal/ev"
	"verifharness/internal/gen"

	"github.com/ipfs/ipfs-cluster/cmdutils"
	"github.com/ipfs/ipfs-cluster/config"
	ma "github.com/multiformats/go-multiaddr"
	"pgregory.net/rapid"
)

func TestMain(m *testing.M) {
	// a Manager's goroutines (one per registered section) only look at their
	// stop signal on this ticker: with the default second every
	// Manager.Shutdown() of a case would take that long
	config.ConfigSaveInterval = time.Millisecond
	code := m.Run()
	ev.Flush()
	os.Exit(code)
}

const secretMarker = "5ec4e7c0ffee5ec4e7c0ffee5ec4e7c0ffee5ec4e7c0ffee5ec4e7c0ffee0001"
const passMarker = "Pa55w0rd-VERIF-MARKER"

// value is a generated setting value.
type value struct {
	v          interface{} // JSON value
	wellformed bool        // right JSON type and parseable
	zero       bool
	env        string // textual form for an environment variable ("" = not expressible)
}

func drawValue(t *rapid.T, kind int) value {
	bad := rapid.IntRange(0, 7).Draw(t, "malformed") == 0
	switch kind {
	case kDur:
		if bad {
			return value{v: rapid.SampledFrom([]interface{}{"abc", "", 5, "10", "1.5.h"}).Draw(t, "baddur")}
		}
		s := rapid.SampledFrom([]string{"17s", "2m3s", "1h0m0s", "250ms", "0s", "-5s", "1h30m0s", "3s", "1ns", "45m0s"}).Draw(t, "dur")
		return value{v: s, wellformed: true, zero: s == "0s", env: s}
	case kInt, kUint:
		if bad {
			return value{v: rapid.SampledFrom([]interface{}{"x", 1.5, true}).Draw(t, "badint")}
		}
		n := rapid.SampledFrom([]int{1, 2, 3, 7, 20, 100, 4097, 0, -1, -7, 1 << 20}).Draw(t, "int")
		if kind == kUint && n < 0 {
			return value{v: n} // negative for unsigned: malformed
		}
		return value{v: n, wellformed: true, zero: n == 0, env: fmt.Sprint(n)}
	case kFloat:
		if bad {
			return value{v: rapid.SampledFrom([]interface{}{"x", true}).Draw(t, "badfloat")}
		}
		f := rapid.SampledFrom([]float64{0.1, 0.25, 0.5, 1, 3.5, 0, -1, 17}).Draw(t, "float")
		return value{v: f, wellformed: true, zero: f == 0, env: fmt.Sprint(f)}
	case kBool:
		if bad {
			return value{v: rapid.SampledFrom([]interface{}{"yes", 1}).Draw(t, "badbool")}
		}
		b := rapid.Bool().Draw(t, "bool")
		return value{v: b, wellformed: true, zero: !b, env: fmt.Sprint(b)}
	case kString:
		s := rapid.SampledFrom([]string{"abc", "ünï-名", "with space", ""}).Draw(t, "str")
		return value{v: s, wellformed: true, zero: s == "", env: s}
	case kPath:
		s := rapid.SampledFrom([]string{"sub/dir", "/abs/path", "file.log", ""}).Draw(t, "path")
		return value{v: s, wellformed: true, zero: s == "", env: s}
	case kSecret:
		if bad {
			return value{v: rapid.SampledFrom([]interface{}{"zz", "abcd", 7}).Draw(t, "badsecret")}
		}
		s := rapid.SampledFrom([]string{secretMarker, ""}).Draw(t, "secret")
		return value{v: s, wellformed: true, zero: s == "", env: s}
	case kMaddr:
		if bad {
			return value{v: rapid.SampledFrom([]interface{}{"notamaddr", "/ip4/999.0.0.1/tcp/1", 5}).Draw(t, "badmaddr")}
		}
		s := rapid.SampledFrom([]string{"/ip4/127.0.0.1/tcp/1234", "/dns4/localhost/tcp/99", "/ip4/10.0.0.7/tcp/8080", "/ip6/::1/tcp/5001"}).Draw(t, "maddr")
		return value{v: s, wellformed: true, env: s}
	case kMaddrList:
		if bad {
			return value{v: rapid.SampledFrom([]interface{}{[]interface{}{"notamaddr"}, "x", []interface{}{5}}).Draw(t, "badmlist")}
		}
		n := rapid.IntRange(0, 2).Draw(t, "nm")
		l := []interface{}{}
		for i := 0; i < n; i++ {
			l = append(l, rapid.SampledFrom([]string{"/ip4/127.0.0.1/tcp/1234", "/ip4/0.0.0.0/tcp/9000", "/ip6/::/tcp/9001", "/dns4/example.org/tcp/443"}).Draw(t, "m"))
		}
		return value{v: l, wellformed: true, zero: n == 0}
	case kPeerList:
		if bad {
			return value{v: rapid.SampledFrom([]interface{}{[]interface{}{"notapeer"}, "x"}).Draw(t, "badplist")}
		}
		n := rapid.IntRange(0, 3).Draw(t, "np")
		l := []interface{}{}
		for i := 0; i < n; i++ {
			l = append(l, gen.Peers[rapid.IntRange(0, 5).Draw(t, "p")].Pretty())
		}
		return value{v: l, wellformed: true, zero: n == 0}
	case kStrList:
		n := rapid.IntRange(0, 3).Draw(t, "ns")
		l := []interface{}{}
		for i := 0; i < n; i++ {
			l = append(l, rapid.SampledFrom([]string{"GET", "POST", "X-Custom", "https://example.org", "*"}).Draw(t, "s"))
		}
		return value{v: l, wellformed: true, zero: n == 0}
	case kFloatList:
		n := rapid.IntRange(0, 3).Draw(t, "nf")
		l := []interface{}{}
		for i := 0; i < n; i++ {
			l = append(l, rapid.SampledFrom([]float64{1, 1.5, 2}).Draw(t, "f"))
		}
		return value{v: l, wellformed: true, zero: n == 0}
	case kEnumMetric:
		s := rapid.SampledFrom([]string{"freespace", "reposize", "bad", ""}).Draw(t, "metric")
		return value{v: s, wellformed: s == "freespace" || s == "reposize", env: s}
	case kCreds:
		n := rapid.IntRange(0, 2).Draw(t, "nc")
		m := map[string]interface{}{}
		for i := 0; i < n; i++ {
			m[rapid.SampledFrom([]string{"admin", "user2"}).Draw(t, "u")] = passMarker + fmt.Sprint(i)
		}
		return value{v: m, wellformed: true, zero: n == 0}
	case kHeaders:
		n := rapid.IntRange(0, 2).Draw(t, "nh")
		m := map[string]interface{}{}
		for i := 0; i < n; i++ {
			m[rapid.SampledFrom([]string{"X-A", "Server"}).Draw(t, "h")] = []interface{}{rapid.SampledFrom([]string{"v1", "v 2"}).Draw(t, "hv")}
		}
		return value{v: m, wellformed: true, zero: n == 0}
	}
	panic("kind")
}

func setPath(m map[string]interface{}, path string, v interface{}) {
	parts := strings.Split(path, ".")
	for _, p := range parts[:len(parts)-1] {
		sub, ok := m[p].(map[string]interface{})
		if !ok {
			sub = map[string]interface{}{}
			m[p] = sub
		}
		m = sub
	}
	m[parts[len(parts)-1]] = v
}

func delPath(m map[string]interface{}, path string) {
	parts := strings.Split(path, ".")
	for _, p := range parts[:len(parts)-1] {
		sub, ok := m[p].(map[string]interface{})
		if !ok {
			return
		}
		m = sub
	}
	delete(m, parts[len(parts)-1])
}

func getPath(m map[string]interface{}, path string) (interface{}, bool) {
	parts := strings.Split(path, ".")
	for _, p := range parts[:len(parts)-1] {
		sub, ok := m[p].(map[string]interface{})
		if !ok {
			return nil, false
		}
		m = sub
	}
	v, ok := m[parts[len(parts)-1]]
	return v, ok
}

func canonJSON(v interface{}) string {
	b, _ := json.Marshal(v)
	var x interface{}
	json.Unmarshal(b, &x)
	b, _ = json.Marshal(x)
	return string(b)
}

// sameValue compares a set value with the value shown by ToJSON, by kind.
func sameValue(kind int, set, shown interface{}) bool {
	switch kind {
	case kDur:
		a, e1 := time.ParseDuration(fmt.Sprint(set))
		b, e2 := time.ParseDuration(fmt.Sprint(shown))
		return e1 == nil && e2 == nil && a == b
	case kMaddr:
		a, e1 := ma.NewMultiaddr(fmt.Sprint(set))
		b, e2 := ma.NewMultiaddr(fmt.Sprint(shown))
		return e1 == nil && e2 == nil && a.Equal(b)
	case kMaddrList:
		// a single address may be shown as a plain string
		if s, ok := shown.(string); ok {
			shown = []interface{}{s}
		}
		return canonJSON(set) == canonJSON(shown)
	case kCreds, kHeaders, kStrList, kPeerList, kFloatList:
		if shown == nil {
			shown = map[string]interface{}{}
			if kind != kCreds && kind != kHeaders {
				shown = []interface{}{}
			}
		}
		return canonJSON(set) == canonJSON(shown)
	default:
		return canonJSON(set) == canonJSON(shown)
	}
}

func noPanic(t *rapid.T, what string, f func()) {
	defer func() {
		if r := recover(); r != nil {
			t.Fatalf("%s panicked: %v", what, r)
		}
	}()
	f()
}

const rule = "one section (cluster, raft, crdt, restapi, ipfsproxy, ipfshttp, stateless, pubsubmon, disk, numpin, metrics, tracing, badger, leveldb) x 1-6 fields of its hand-written field specification set to generated values (in range, boundary, zero, negative, malformed type, unparsable) in the section's default JSON; oracle: no panic; LoadJSON accepted => Validate accepts, every well-formed non-zero value that was set is shown by ToJSON, ToJSON output loads and saves to itself, display form shows no secret; non-trivial = at least one accepted non-default value or a rejected value; distinct by section + settings"

func defaultJSON(t *rapid.T, s section) map[string]interface{} {
	c := s.mk()
	if err := c.Default(); err != nil {
		t.Fatalf("%s Default: %v", s.name, err)
	}
	if err := c.Validate(); err != nil {
		t.Fatalf("%s: the default configuration does not validate: %v", s.name, err)
	}
	b, err := c.ToJSON()
	if err != nil {
		t.Fatalf("%s ToJSON of defaults: %v", s.name, err)
	}
	var m map[string]interface{}
	if err := json.Unmarshal(b, &m); err != nil {
		t.Fatalf("%s ToJSON is not a JSON object: %v", s.name, err)
	}
	return m
}

func TestSections(t *testing.T) {
	leg := ev.L("sections", rule)
	rapid.Check(t, func(t *rapid.T) {
		s := sections[rapid.IntRange(0, len(sections)-1).Draw(t, "section")]
		base := defaultJSON(t, s)
		n := rapid.IntRange(1, 6).Draw(t, "nfields")
		type setting struct {
			f field
			v value
		}
		var set []setting
		used := map[string]bool{}
		for i := 0; i < n; i++ {
			f := s.fields[rapid.IntRange(0, len(s.fields)-1).Draw(t, "field")]
			if used[f.path] {
				continue
			}
			used[f.path] = true
			v := drawValue(t, f.kind)
			setPath(base, f.path, v.v)
			set = append(set, setting{f, v})
		}
		j, _ := json.Marshal(base)
		var desc []string
		for _, st := range set {
			desc = append(desc, fmt.Sprintf("%s=%s", st.f.path, canonJSON(st.v.v)))
		}
		sort.Strings(desc)
		c := s.mk()
		var lerr error
		noPanic(t, s.name+".LoadJSON", func() { lerr = c.LoadJSON(j) })
		classes := []string{"section:" + s.name}
		if lerr != nil {
			classes = append(classes, "rejected")
			leg.Case(s.name+" "+strings.Join(desc, " "), true, classes...)
			return
		}
		classes = append(classes, "accepted")
		noPanic(t, s.name+".Validate", func() {
			if err := c.Validate(); err != nil {
				t.Fatalf("%s: LoadJSON accepted a configuration that Validate rejects: %v\nsettings: %v", s.name, err, desc)
			}
		})
		var out []byte
		noPanic(t, s.name+".ToJSON", func() {
			var err error
			out, err = c.ToJSON()
			if err != nil {
				t.Fatalf("%s: ToJSON after LoadJSON: %v", s.name, err)
			}
		})
		var outm map[string]interface{}
		if err := json.Unmarshal(out, &outm); err != nil {
			t.Fatalf("%s: ToJSON output is not JSON: %v", s.name, err)
		}
		nondefault := false
		for _, st := range set {
			if !st.v.wellformed {
				// the statement speaks about well-formed settings and about values
				// validation rejects; a malformed value that is ignored is neither
				classes = append(classes, "malformed-ignored")
				continue
			}
			if st.v.zero {
				continue
			}
			shown, ok := getPath(outm, st.f.path)
			if !ok {
				classes = append(classes, "absent-in-output")
				continue
			}
			if !sameValue(st.f.kind, st.v.v, shown) {
				t.Fatalf("%s: setting %s = %s was accepted but ToJSON shows %s (silently dropped or replaced)\nsettings: %v", s.name, st.f.path, canonJSON(st.v.v), canonJSON(shown), desc)
			}
			nondefault = true
		}
		// fixpoint
		c2 := s.mk()
		if err := c2.LoadJSON(out); err != nil {
			t.Fatalf("%s: its own ToJSON output is refused by LoadJSON: %v\noutput: %s", s.name, err, out)
		}
		out2, err := c2.ToJSON()
		if err != nil {
			t.Fatal(err)
		}
		if canon(out) != canon(out2) {
			t.Fatalf("%s: save/load/save is not a fixpoint:\nfirst  %s\nsecond %s", s.name, canon(out), canon(out2))
		}
		// display form
		var disp []byte
		noPanic(t, s.name+".ToDisplayJSON", func() {
			disp, err = c.ToDisplayJSON()
			if err != nil {
				t.Fatalf("%s ToDisplayJSON: %v", s.name, err)
			}
		})
		if bytes.Contains(disp, []byte(secretMarker)) || bytes.Contains(disp, []byte(passMarker)) {
			t.Fatalf("%s: the displayable form contains a secret:\n%s", s.name, disp)
		}
		leg.Case(s.name+" "+strings.Join(desc, " "), nondefault, classes...)
	})
}

func canon(b []byte) string {
	var x interface{}
	json.Unmarshal(b, &x)
	o, _ := json.Marshal(x)
	return string(o)
}

// Values supplied through environment variables.
func TestEnv(t *testing.T) {
	leg := ev.L("env", "one section x 1-3 top-level scalar settings supplied through the documented environment variables (prefix + upper-cased field name) on top of the defaults; ApplyEnvVars must either fail or show the value in ToJSON (non-zero well-formed values), and must not panic; non-trivial = value differs from zero and was applied; distinct by section + settings")
	rapid.Check(t, func(t *rapid.T) {
		s := sections[rapid.IntRange(0, len(sections)-1).Draw(t, "section")]
		var cands []field
		for _, f := range s.fields {
			if f.env != "" {
				cands = append(cands, f)
			}
		}
		if len(cands) == 0 {
			t.Skip("no scalar fields")
		}
		n := rapid.IntRange(1, 3).Draw(t, "n")
		type setting struct {
			f field
			v value
		}
		var set []setting
		used := map[string]bool{}
		var names []string
		defer func() {
			for _, n := range names {
				os.Unsetenv(n)
			}
		}()
		var desc []string
		for i := 0; i < n; i++ {
			f := cands[rapid.IntRange(0, len(cands)-1).Draw(t, "field")]
			if used[f.path] {
				continue
			}
			v := drawValue(t, f.kind)
			if !v.wellformed || v.env == "" {
				continue
			}
			used[f.path] = true
			name := strings.ToUpper(s.envKey) + "_" + f.env
			os.Setenv(name, v.env)
			names = append(names, name)
			set = append(set, setting{f, v})
			desc = append(desc, name+"="+v.env)
		}
		c := s.mk()
		c.Default()
		var err error
		noPanic(t, s.name+".ApplyEnvVars", func() { err = c.ApplyEnvVars() })
		if err != nil {
			leg.Case(s.name+" "+strings.Join(desc, " "), false, "rejected")
			return
		}
		out, err := c.ToJSON()
		if err != nil {
			t.Fatalf("ToJSON after ApplyEnvVars: %v", err)
		}
		var outm map[string]interface{}
		json.Unmarshal(out, &outm)
		applied := false
		for _, st := range set {
			if st.v.zero {
				continue
			}
			shown, ok := getPath(outm, st.f.path)
			if !ok {
				continue
			}
			var want interface{} = st.v.v
			if !sameValue(st.f.kind, want, shown) {
				t.Fatalf("%s: environment variable for %s = %q was accepted but ToJSON shows %s\nenv: %v", s.name, st.f.path, st.v.env, canonJSON(shown), desc)
			}
			applied = true
		}
		disp, _ := c.ToDisplayJSON()
		if bytes.Contains(disp, []byte(secretMarker)) {
			t.Fatalf("%s: display form contains the secret given through the environment", s.name)
		}
		leg.Case(s.name+" "+strings.Join(desc, " "), applied, "section:"+s.name)
	})
}

// The standard start-up flow (Manager.LoadJSONFileAndEnv) is LoadJSON
// followed by ApplyEnvVars: applying the environment on top of a loaded
// configuration must keep every loaded setting that no variable overrides.
func TestLoadThenEnv(t *testing.T) {
	leg := ev.L("load-then-env", "one section x 1-6 settings loaded with LoadJSON (accepted), then ApplyEnvVars with no variable set, or with one scalar setting supplied through its variable: the saved form must be identical to the one before (no variable), or differ only in the overridden setting; list and map settings (trusted peers, addresses, headers, credentials) are included in the loaded part; non-trivial = a list/map/non-default setting was loaded; distinct by section + settings")
	rapid.Check(t, func(t *rapid.T) {
		s := sections[rapid.IntRange(0, len(sections)-1).Draw(t, "section")]
		base := defaultJSON(t, s)
		n := rapid.IntRange(1, 6).Draw(t, "nfields")
		used := map[string]bool{}
		var desc []string
		for i := 0; i < n; i++ {
			f := s.fields[rapid.IntRange(0, len(s.fields)-1).Draw(t, "field")]
			if used[f.path] {
				continue
			}
			used[f.path] = true
			v := drawValue(t, f.kind)
			if !v.wellformed {
				continue
			}
			setPath(base, f.path, v.v)
			desc = append(desc, fmt.Sprintf("%s=%s", f.path, canonJSON(v.v)))
		}
		sort.Strings(desc)
		j, _ := json.Marshal(base)
		c := s.mk()
		var lerr error
		noPanic(t, s.name+".LoadJSON", func() { lerr = c.LoadJSON(j) })
		if lerr != nil {
			t.Skip("not accepted")
		}
		before, err := c.ToJSON()
		if err != nil {
			t.Fatalf("%s: ToJSON: %v", s.name, err)
		}
		// optionally override one scalar through the environment
		var over *field
		var overV value
		var cands []field
		for _, f := range s.fields {
			if f.env != "" {
				cands = append(cands, f) // also settings the file itself sets: the variable wins
			}
		}
		if len(cands) > 0 && rapid.Bool().Draw(t, "override") {
			f := cands[rapid.IntRange(0, len(cands)-1).Draw(t, "envfield")]
			v := drawValue(t, f.kind)
			// a zero number or duration means "use the default"; false is a value
			if v.wellformed && v.env != "" && (!v.zero || f.kind == kBool) {
				over, overV = &f, v
				name := strings.ToUpper(s.envKey) + "_" + f.env
				os.Setenv(name, v.env)
				defer os.Unsetenv(name)
				desc = append(desc, "env:"+name+"="+v.env)
			}
		}
		var aerr error
		noPanic(t, s.name+".ApplyEnvVars", func() { aerr = c.ApplyEnvVars() })
		if aerr != nil {
			if over == nil {
				t.Fatalf("%s: ApplyEnvVars with no variable set failed on a loaded configuration: %v\nsettings: %v", s.name, aerr, desc)
			}
			leg.Case(s.name+" "+strings.Join(desc, " "), false, "env-rejected")
			return
		}
		after, err := c.ToJSON()
		if err != nil {
			t.Fatalf("%s: ToJSON after ApplyEnvVars: %v", s.name, err)
		}
		var bm, am map[string]interface{}
		json.Unmarshal(before, &bm)
		json.Unmarshal(after, &am)
		if over != nil {
			// the overridden setting shows the variable's value; everything else
			// must not change
			if shown, ok := getPath(am, over.path); ok {
				if !sameValue(over.kind, overV.v, shown) {
					t.Fatalf("%s: the environment variable for %s = %q was accepted on top of a loaded configuration but the saved form shows %s\nsettings: %v", s.name, over.path, overV.env, canonJSON(shown), desc)
				}
				setPath(bm, over.path, shown)
			} else if overV.zero {
				// false through the variable, and the section omits a false
				// setting when it saves: then it must be gone, not still true
				if was, had := getPath(bm, over.path); had && was == true {
					delPath(bm, over.path)
				}
			}
		}
		if cb, ca := canonJSON(bm), canonJSON(am); cb != ca {
			t.Fatalf("%s: applying the environment changed loaded settings\nbefore: %s\nafter:  %s\nsettings: %v", s.name, cb, ca, desc)
		}
		_ = overV
		cls := []string{"section:" + s.name}
		if over != nil {
			cls = append(cls, "override")
		}
		leg.Case(s.name+" "+strings.Join(desc, " "), len(desc) > 0, cls...)
	})
}

// The full configuration file through config.Manager.
func TestManager(t *testing.T) {
	leg := ev.L("manager", "a full configuration file (all sections registered as cmdutils does, raft or crdt, badger or leveldb) with 1-4 settings of 1-2 sections changed; Manager.LoadJSON must reject or accept; accepted => Manager.ToJSON shows the values and is a fixpoint under load/save, the manager's display form hides secrets; non-trivial = accepted with a non-default value; distinct by settings")
	rapid.Check(t, func(t *rapid.T) {
		cons := rapid.SampledFrom([]string{"raft", "crdt"}).Draw(t, "consensus")
		store := rapid.SampledFrom([]string{"badger", "leveldb"}).Draw(t, "datastore")
		ch := cmdutils.NewConfigHelper("/nonexistent/verif/service.json", "/nonexistent/verif/identity.json", cons, store)
		defer ch.Manager().Shutdown() // the Manager starts a goroutine per registered section
		if err := ch.Manager().Default(); err != nil {
			t.Fatal(err)
		}
		full, err := ch.Manager().ToJSON()
		if err != nil {
			t.Fatal(err)
		}
		var doc map[string]interface{}
		json.Unmarshal(full, &doc)
		// locate each section inside the document
		where := map[string]string{"cluster": "cluster", "raft": "consensus.raft", "crdt": "consensus.crdt", "restapi": "api.restapi", "ipfsproxy": "api.ipfsproxy",
			"ipfshttp": "ipfs_connector.ipfshttp", "stateless": "pin_tracker.stateless", "pubsubmon": "monitor.pubsubmon", "disk": "informer.disk",
			"metrics": "observations.metrics", "tracing": "observations.tracing", "badger": "datastore.badger", "leveldb": "datastore.leveldb"}
		type setting struct {
			path string
			f    field
			v    value
		}
		var set []setting
		var desc []string
		n := rapid.IntRange(1, 4).Draw(t, "n")
		for i := 0; i < n; i++ {
			s := sections[rapid.IntRange(0, len(sections)-1).Draw(t, "section")]
			prefix, ok := where[s.name]
			if !ok {
				continue
			}
			if _, present := getPath(doc, prefix); !present {
				continue
			}
			f := s.fields[rapid.IntRange(0, len(s.fields)-1).Draw(t, "field")]
			v := drawValue(t, f.kind)
			p := prefix + "." + f.path
			dup := false
			for _, st := range set {
				if st.path == p {
					dup = true
				}
			}
			if dup {
				continue
			}
			setPath(doc, p, v.v)
			set = append(set, setting{p, f, v})
			desc = append(desc, p+"="+canonJSON(v.v))
		}
		j, _ := json.Marshal(doc)
		ch2 := cmdutils.NewConfigHelper("/nonexistent/verif/service.json", "/nonexistent/verif/identity.json", cons, store)
		defer ch2.Manager().Shutdown() // the Manager starts a goroutine per registered section
		var lerr error
		noPanic(t, "Manager.LoadJSON", func() { lerr = ch2.Manager().LoadJSON(j) })
		if lerr != nil {
			leg.Case(strings.Join(desc, " "), false, "rejected")
			return
		}
		if err := ch2.Manager().Validate(); err != nil {
			t.Fatalf("Manager.LoadJSON accepted what Manager.Validate rejects: %v\nsettings: %v", err, desc)
		}
		out, err := ch2.Manager().ToJSON()
		if err != nil {
			t.Fatal(err)
		}
		var outm map[string]interface{}
		json.Unmarshal(out, &outm)
		nondefault := false
		for _, st := range set {
			if !st.v.wellformed {
				continue
			}
			if st.v.zero {
				continue
			}
			shown, ok := getPath(outm, st.path)
			if !ok {
				continue
			}
			if !sameValue(st.f.kind, st.v.v, shown) {
				t.Fatalf("setting %s = %s accepted but the saved file shows %s\nsettings: %v", st.path, canonJSON(st.v.v), canonJSON(shown), desc)
			}
			nondefault = true
		}
		ch3 := cmdutils.NewConfigHelper("/nonexistent/verif/service.json", "/nonexistent/verif/identity.json", cons, store)
		defer ch3.Manager().Shutdown() // the Manager starts a goroutine per registered section
		if err := ch3.Manager().LoadJSON(out); err != nil {
			t.Fatalf("the saved file is refused: %v", err)
		}
		out3, _ := ch3.Manager().ToJSON()
		if canon(out) != canon(out3) {
			t.Fatalf("full file save/load/save is not a fixpoint")
		}
		disp, err := ch2.Manager().ToDisplayJSON()
		if err != nil {
			t.Fatal(err)
		}
		if bytes.Contains(disp, []byte(secretMarker)) || bytes.Contains(disp, []byte(passMarker)) {
			t.Fatalf("the manager's display form contains a secret:\n%s", disp)
		}
		leg.Case(cons+"/"+store+" "+strings.Join(desc, " "), nondefault, "accepted")
	})
}

// Identity: private key never displayed; round trip.
func TestIdentity(t *testing.T) {
	leg := ev.L("identity", "generated identities (fresh default, or from the fixed key pool): ToJSON/LoadJSON round trip keeps ID and key; non-trivial = always (2 distinct shapes)")
	rapid.Check(t, func(t *rapid.T) {
		id := &config.Identity{}
		if err := id.Default(); err != nil {
			t.Fatal(err)
		}
		b, err := id.ToJSON()
		if err != nil {
			t.Fatal(err)
		}
		id2 := &config.Identity{}
		if err := id2.LoadJSON(b); err != nil {
			t.Fatalf("identity does not load its own JSON: %v", err)
		}
		if id2.ID != id.ID || !id2.PrivateKey.Equals(id.PrivateKey) {
			t.Fatalf("identity round trip changed the identity")
		}
		mut := rapid.SampledFrom([]string{"none", "badid", "badkey", "mismatch"}).Draw(t, "mut")
		var m map[string]interface{}
		json.Unmarshal(b, &m)
		switch mut {
		case "badid":
			m["id"] = "notapeer"
		case "badkey":
			m["private_key"] = "AAAA"
		case "mismatch":
			m["id"] = gen.Peers[0].Pretty()
		}
		j, _ := json.Marshal(m)
		id3 := &config.Identity{}
		var lerr error
		noPanic(t, "Identity.LoadJSON", func() { lerr = id3.LoadJSON(j) })
		if mut != "none" && lerr == nil {
			if err := id3.Validate(); err == nil {
				t.Fatalf("identity with %s accepted by LoadJSON and Validate", mut)
			}
		}
		leg.Case(mut+fmt.Sprint(rapid.IntRange(0, 1000).Draw(t, "salt")), true)
	})
}

// TLS settings of the REST API need real certificate files, so they get
// their own leg: paths relative to the configuration folder or absolute,
// optionally with other settings; the saved form must carry the paths as
// they were given.
func TestRestTLSPaths(t *testing.T) {
	leg := ev.L("rest-tls-paths", "restapi section with ssl_cert_file/ssl_key_file pointing at a generated self-signed certificate, each given relative to the configuration folder or as an absolute path, 0-3 other settings; LoadJSON must accept and ToJSON must show the two paths exactly as given (so that the saved file still works when the folder moves) and load again; non-trivial = at least one relative path; distinct by settings")
	base, err := ioutil.TempDir(os.Getenv("VERIF_WORKDIR"), "c15tls-")
	if err != nil {
		t.Fatal(err)
	}
	defer os.RemoveAll(base)
	os.MkdirAll(filepath.Join(base, "tls"), 0700)
	certPEM, keyPEM := selfSigned(t)
	ioutil.WriteFile(filepath.Join(base, "tls", "server.crt"), certPEM, 0600)
	ioutil.WriteFile(filepath.Join(base, "tls", "server.key"), keyPEM, 0600)
	var s section
	for _, x := range sections {
		if x.name == "restapi" {
			s = x
		}
	}
	rapid.Check(t, func(t *rapid.T) {
		relCert, relKey := rapid.Bool().Draw(t, "relCert"), rapid.Bool().Draw(t, "relKey")
		cert, key := filepath.Join(base, "tls", "server.crt"), filepath.Join(base, "tls", "server.key")
		if relCert {
			cert = "tls/server.crt"
		}
		if relKey {
			key = rapid.SampledFrom([]string{"tls/server.key", "./tls/server.key"}).Draw(t, "relKeyForm")
		}
		m := defaultJSON(t, s)
		m["ssl_cert_file"], m["ssl_key_file"] = cert, key
		var desc []string
		for i := rapid.IntRange(0, 3).Draw(t, "nother"); i > 0; i-- {
			f := s.fields[rapid.IntRange(0, len(s.fields)-1).Draw(t, "field")]
			v := drawValue(t, f.kind)
			if !v.wellformed {
				continue
			}
			setPath(m, f.path, v.v)
			desc = append(desc, fmt.Sprintf("%s=%s", f.path, canonJSON(v.v)))
		}
		j, _ := json.Marshal(m)
		c := s.mk()
		c.SetBaseDir(base)
		if err := c.LoadJSON(j); err != nil {
			leg.Case(fmt.Sprintf("cert=%s key=%s %v rejected", cert, key, desc), false, "rejected")
			return
		}
		out, err := c.ToJSON()
		if err != nil {
			t.Fatalf("ToJSON: %v", err)
		}
		var om map[string]interface{}
		json.Unmarshal(out, &om)
		if om["ssl_cert_file"] != cert || om["ssl_key_file"] != key {
			t.Fatalf("loaded ssl_cert_file=%q ssl_key_file=%q, saved as %v / %v (configuration folder %s)", cert, key, om["ssl_cert_file"], om["ssl_key_file"], base)
		}
		c2 := s.mk()
		c2.SetBaseDir(base)
		if err := c2.LoadJSON(out); err != nil {
			t.Fatalf("the saved configuration does not load: %v\n%s", err, out)
		}
		leg.Case(fmt.Sprintf("cert=%s key=%s %v", cert, key, desc), relCert || relKey)
	})
}

func selfSigned(t *testing.T) ([]byte, []byte) {
	priv, err := ecdsa.GenerateKey(elliptic.P256(), crand.Reader)
	if err != nil {
		t.Fatal(err)
	}
	tmpl := &x509.Certificate{SerialNumber: big.NewInt(1), Subject: pkix.Name{CommonName: "verif"}, NotBefore: time.Now().Add(-time.Hour), NotAfter: time.Now().Add(24 * time.Hour), DNSNames: []string{"localhost"}}
	der, err := x509.CreateCertificate(crand.Reader, tmpl, tmpl, &priv.PublicKey, priv)
	if err != nil {
		t.Fatal(err)
	}
	kb, err := x509.MarshalECPrivateKey(priv)
	if err != nil {
		t.Fatal(err)
	}
	return pem.EncodeToMemory(&pem.Block{Type: "CERTIFICATE", Bytes: der}), pem.EncodeToMemory(&pem.Block{Type: "EC PRIVATE KEY", Bytes: kb})
}

// Environment variables through the manager: what the daemon does at start
// (load the file, then apply the environment to every section).
func TestManagerEnv(t *testing.T) {
	leg := ev.L("manager-env", "the default configuration of all sections (raft or crdt, badger or leveldb) loaded through config.Manager, then Manager.ApplyEnvVars with one scalar setting of one component section supplied through its variable, well-formed or malformed (non-numeric integer, unparsable duration, ...): a value the section's own ApplyEnvVars refuses must make the call fail, and whatever is accepted must pass Manager.Validate and show in Manager.ToJSON; non-trivial = a refused malformed value or an applied non-zero value; distinct by section + setting")
	rapid.Check(t, func(t *rapid.T) {
		cons := rapid.SampledFrom([]string{"raft", "crdt"}).Draw(t, "consensus")
		store := rapid.SampledFrom([]string{"badger", "leveldb"}).Draw(t, "datastore")
		ch := cmdutils.NewConfigHelper("/nonexistent/verif/service.json", "/nonexistent/verif/identity.json", cons, store)
		defer ch.Manager().Shutdown() // the Manager starts a goroutine per registered section
		if err := ch.Manager().Default(); err != nil {
			t.Fatal(err)
		}
		full, err := ch.Manager().ToJSON()
		if err != nil {
			t.Fatal(err)
		}
		var fm map[string]map[string]interface{}
		json.Unmarshal(full, &fm)
		// sections present in this manager, with scalar env settings
		type cand struct {
			s section
			f field
		}
		var cands []cand
		for _, s := range sections {
			present := false
			for _, grp := range fm {
				if _, ok := grp[s.name]; ok {
					present = true
				}
			}
			if s.name == "cluster" {
				present = true
			}
			if !present {
				continue
			}
			for _, f := range s.fields {
				if f.env != "" && (f.kind == kInt || f.kind == kUint || f.kind == kDur || f.kind == kBool || f.kind == kFloat) {
					cands = append(cands, cand{s, f})
				}
			}
		}
		if len(cands) == 0 {
			t.Skip("no candidates")
		}
		c := cands[rapid.IntRange(0, len(cands)-1).Draw(t, "setting")]
		malformed := rapid.IntRange(0, 2).Draw(t, "malformed") == 0
		val := ""
		var v value
		if malformed {
			val = map[int]string{kInt: "twenty", kUint: "twenty", kDur: "soon", kBool: "perhaps", kFloat: "much"}[c.f.kind]
		} else {
			v = drawValue(t, c.f.kind)
			if !v.wellformed || v.env == "" {
				t.Skip("no textual form")
			}
			val = v.env
		}
		name := strings.ToUpper(c.s.envKey) + "_" + c.f.env
		os.Setenv(name, val)
		defer os.Unsetenv(name)
		ch2 := cmdutils.NewConfigHelper("/nonexistent/verif/service.json", "/nonexistent/verif/identity.json", cons, store)
		defer ch2.Manager().Shutdown() // the Manager starts a goroutine per registered section
		if err := ch2.Manager().LoadJSON(full); err != nil {
			t.Fatalf("default configuration does not load: %v", err)
		}
		var aerr error
		noPanic(t, "Manager.ApplyEnvVars", func() { aerr = ch2.Manager().ApplyEnvVars() })
		desc := fmt.Sprintf("%s/%s %s=%s", cons, store, name, val)
		// reference: the section on its own, loaded from the same JSON
		var secJSON []byte
		for _, grp := range fm {
			if sj, ok := grp[c.s.name]; ok {
				secJSON, _ = json.Marshal(sj)
			}
		}
		if c.s.name == "cluster" {
			secJSON, _ = json.Marshal(fm["cluster"])
		}
		alone := c.s.mk()
		if err := alone.LoadJSON(secJSON); err != nil {
			t.Fatalf("section %s of the default configuration does not load on its own: %v", c.s.name, err)
		}
		var serr error
		noPanic(t, "ApplyEnvVars", func() { serr = alone.ApplyEnvVars() })
		if serr != nil && aerr == nil {
			t.Fatalf("%s: the %s section refuses this value (%v), yet Manager.ApplyEnvVars reported no error", desc, c.s.name, serr)
		}
		if malformed && aerr != nil {
			leg.Case(desc, true, "malformed-refused")
			return
		}
		if aerr != nil {
			leg.Case(desc, false, "rejected")
			return
		}
		if err := ch2.Manager().Validate(); err != nil {
			t.Fatalf("%s was accepted by Manager.ApplyEnvVars but Manager.Validate rejects the result: %v", desc, err)
		}
		out, err := ch2.Manager().ToJSON()
		if err != nil {
			t.Fatalf("ToJSON: %v", err)
		}
		applied := false
		if !malformed && !v.zero {
			var om map[string]map[string]interface{}
			json.Unmarshal(out, &om)
			if c.s.name == "cluster" {
				om = map[string]map[string]interface{}{"": {"cluster": map[string]interface{}(om["cluster"])}}
			}
			for _, grp := range om {
				sec, ok := grp[c.s.name].(map[string]interface{})
				if !ok {
					continue
				}
				if shown, ok := getPath(sec, c.f.path); ok {
					if !sameValue(c.f.kind, v.v, shown) {
						t.Fatalf("%s was accepted but the saved configuration shows %s", desc, canonJSON(shown))
					}
					applied = true
				}
			}
		}
		cl := "section:" + c.s.name
		if malformed {
			cl = "malformed-ignored"
		}
		leg.Case(desc, applied, cl)
	})
}

// A configuration file may hold sections of components that the process
// saving it does not run (ipfs-cluster-follow registers crdt only; a raft
// peer keeps the crdt section `init` wrote for a later switch): saving must
// keep them.
func TestManagerForeignSections(t *testing.T) {
	leg := ev.L("manager-foreign-sections", "a configuration file holding the sections of every component, both consensus components and both datastores included (as two `init` runs leave it), 1-3 settings of the sections that the loading process does NOT register set to generated well-formed values; loaded by a Manager registering what a raft or a crdt peer registers (one consensus, for crdt one datastore), saved with ToJSON, then loaded by a Manager registering everything: every section present in the file is present in the saved file, the unregistered ones byte-for-byte as JSON values, and the second Manager shows the settings; non-trivial = a non-default value that the second manager accepts; distinct by settings")
	rapid.Check(t, func(t *rapid.T) {
		cons := rapid.SampledFrom([]string{"raft", "crdt"}).Draw(t, "consensus")
		store := rapid.SampledFrom([]string{"badger", "leveldb"}).Draw(t, "datastore")
		var helpers []*cmdutils.ConfigHelper
		defer func() {
			for _, h := range helpers {
				h.Manager().Shutdown() // the Manager starts a goroutine per registered section
			}
		}()
		mk := func(c, s string) *cmdutils.ConfigHelper {
			h := cmdutils.NewConfigHelper("/nonexistent/verif/service.json", "/nonexistent/verif/identity.json", c, s)
			helpers = append(helpers, h)
			return h
		}
		// the file: every section (a helper with no consensus and datastore
		// named registers them all)
		all := mk("", "")
		if err := all.Manager().Default(); err != nil {
			t.Fatal(err)
		}
		fullJSON, err := all.Manager().ToJSON()
		if err != nil {
			t.Fatal(err)
		}
		var doc map[string]interface{}
		json.Unmarshal(fullJSON, &doc)
		// sections the loading process does not register
		var foreign []string
		for _, n := range []string{"raft", "crdt"} {
			if n != cons {
				foreign = append(foreign, n)
			}
		}
		for _, n := range []string{"badger", "leveldb"} {
			if cons == "raft" || n != store {
				foreign = append(foreign, n)
			}
		}
		where := map[string]string{"raft": "consensus.raft", "crdt": "consensus.crdt", "badger": "datastore.badger", "leveldb": "datastore.leveldb"}
		type setting struct {
			path string
			f    field
			v    value
		}
		var set []setting
		var desc []string
		for i := rapid.IntRange(1, 3).Draw(t, "n"); i > 0; i-- {
			name := foreign[rapid.IntRange(0, len(foreign)-1).Draw(t, "section")]
			var sec section
			for _, s := range sections {
				if s.name == name {
					sec = s
				}
			}
			f := sec.fields[rapid.IntRange(0, len(sec.fields)-1).Draw(t, "field")]
			v := drawValue(t, f.kind)
			if !v.wellformed {
				continue
			}
			p := where[name] + "." + f.path
			dup := false
			for _, st := range set {
				if st.path == p {
					dup = true
				}
			}
			if dup {
				continue
			}
			setPath(doc, p, v.v)
			set = append(set, setting{p, f, v})
			desc = append(desc, p+"="+canonJSON(v.v))
		}
		file, _ := json.Marshal(doc)
		what := fmt.Sprintf("registered %s+%s, file also holds %v: %s", cons, store, foreign, strings.Join(desc, " "))
		// the settings must be acceptable to the process that does run those components
		probe := mk("", "")
		if err := probe.Manager().LoadJSON(file); err != nil {
			leg.Case(what, false, "rejected-by-owner")
			return
		}
		ch := mk(cons, store)
		if err := ch.Manager().LoadJSON(file); err != nil {
			t.Fatalf("a Manager that does not register %v refuses a file which is valid for the one that does: %v\n%s", foreign, err, what)
		}
		var saved []byte
		var serr error
		noPanic(t, "Manager.ToJSON", func() { saved, serr = ch.Manager().ToJSON() })
		if serr != nil {
			t.Fatalf("ToJSON after a successful load: %v\n%s", serr, what)
		}
		var sdoc map[string]interface{}
		if err := json.Unmarshal(saved, &sdoc); err != nil {
			t.Fatalf("saved configuration is not JSON: %v", err)
		}
		for _, name := range foreign {
			want, _ := getPath(doc, where[name])
			got, ok := getPath(sdoc, where[name])
			if !ok {
				t.Fatalf("the %s section of the file is gone after load + save by a process that does not run that component\n%s", where[name], what)
			}
			if canonJSON(want) != canonJSON(got) {
				t.Fatalf("the %s section changed in a load + save by a process that does not run that component:\n file: %s\nsaved: %s\n%s", where[name], canonJSON(want), canonJSON(got), what)
			}
		}
		ch2 := mk("", "")
		if err := ch2.Manager().LoadJSON(saved); err != nil {
			t.Fatalf("the saved file does not load where the foreign sections are registered: %v\n%s", err, what)
		}
		out, err := ch2.Manager().ToJSON()
		if err != nil {
			t.Fatalf("ToJSON: %v", err)
		}
		var odoc map[string]interface{}
		json.Unmarshal(out, &odoc)
		nontrivial := false
		for _, st := range set {
			if st.v.zero {
				continue
			}
			shown, ok := getPath(odoc, st.path)
			if !ok {
				continue // a field the section omits when it has its default value
			}
			if !sameValue(st.f.kind, st.v.v, shown) {
				t.Fatalf("%s was in the file, survived nothing: after load+save elsewhere and a load here the configuration shows %s\n%s", st.path, canonJSON(shown), what)
			}
			nontrivial = true
		}
		leg.Case(what, nontrivial, "loader:"+cons+"+"+store)
	})
}
