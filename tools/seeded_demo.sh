#!/bin/bash
# usage: tools/seeded_demo.sh <id> <k> <demo target path in worktree> <package> <run regex> [timeout]
# Confirms a sub-agent's seeded change in its scratch worktree /tmp/mut/<id>:
# the demonstration must pass on the pristine tree and fail with the patch.
set -u
id=$1; k=$2; target=$3; pkg=$4; run=$5; to=${6:-600s}
wt=/tmp/mut/$id; out=/tmp/mut/$id${R:--out}/m$k
export GOFLAGS=-mod=mod GOPROXY=off GOSUMDB=off GOTOOLCHAIN=local GOLOG_LOG_LEVEL=fatal
cd $wt || exit 3
git checkout -q -- . ; git clean -fdq
echo 'replace github.com/libp2p/go-libp2p-quic-transport => /tmp/quicstub' >> go.mod
cp $out/demo_test.go $target
go test $pkg -run "$run" -count=1 -timeout $to > /tmp/seeded_demo.$id.$k.without 2>&1; r0=$?
git apply $out/patch.diff || { echo "PATCH DOES NOT APPLY"; git checkout -q -- .; git clean -fdq; exit 3; }
go build ./... > /tmp/seeded_demo.$id.$k.build 2>&1 || { echo "DOES NOT BUILD"; tail -5 /tmp/seeded_demo.$id.$k.build; }
go test $pkg -run "$run" -count=1 -timeout $to > /tmp/seeded_demo.$id.$k.with 2>&1; r1=$?
echo "without patch rc=$r0 ; with patch rc=$r1"
[ $r0 -ne 0 ] && tail -15 /tmp/seeded_demo.$id.$k.without
[ $r1 -eq 0 ] && tail -5 /tmp/seeded_demo.$id.$k.with
grep -E "^\s+\S+_test.go:[0-9]+:" /tmp/seeded_demo.$id.$k.with | head -4 | cut -c1-300
git checkout -q -- . ; git clean -fdq
rm -f ipfs-cluster-ctl ipfs-cluster-service ipfs-cluster-follow
