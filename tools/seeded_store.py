#!/usr/bin/env python3
"""usage: tools/seeded_store.py <round-suffix e.g. -r4> <first index e.g. 7> <results.json>
Copies confirmed seeded changes from /tmp/mut/<id><suffix>/m{1,2} to
/verif/seeded/<id>/m<first>, m<first+1> and annotates meta.json. results.json maps
"<id> m<k>" to {"first": "...", "follow_up": "..."}.  (tooling, not a check)"""
import json, os, shutil, sys
suffix, first, resf = sys.argv[1], int(sys.argv[2]), sys.argv[3]
res = json.load(open(resf))
rnd = {"-r4": "fourth", "-r5": "fifth"}[suffix]
for i in range(1, 19):
    pid = "C%02d" % i
    for k in (1, 2):
        src = "/tmp/mut/%s%s/m%d" % (pid, suffix, k)
        dst = "/verif/seeded/%s/m%d" % (pid, first + k - 1)
        os.makedirs(dst, exist_ok=True)
        shutil.copy(src + "/patch.diff", dst + "/patch.diff")
        demos = [f for f in os.listdir(src) if f.endswith("_test.go")]
        for f in demos:
            shutil.copy(os.path.join(src, f), os.path.join(dst, f + ".txt"))
        meta = json.load(open(src + "/meta.json"))
        r = res["%s m%d" % (pid, k)]
        meta["origin"] = "%s round: fresh sub-agent given the property text, its own scratch worktree and one-line summaries of the earlier changes for this property (to avoid repeats); nothing from /verif" % rnd
        meta["confirmed"] = "demonstration re-run by the harness author in the scratch worktree: passes on the pristine tree, fails with the patch"
        meta["quick_check_when_received"] = r["first"]
        if r.get("follow_up"):
            meta["follow_up"] = r["follow_up"]
        json.dump(meta, open(dst + "/meta.json", "w"), indent=1)
print("stored")
