#!/bin/bash
# usage: tools/mutant.sh <property id> <file in /repo> <sed expression> [tier]
# Applies an ad-hoc mutation to /repo's working tree, runs the check and
# restores the tree. For sensitivity testing of the checks only.
set -u
id=$1; file=$2; expr=$3; tier=${4:-quick}
cd /repo
if ! git diff --quiet; then echo "repo dirty"; exit 3; fi
sed -i -E "$expr" "$file"
if git diff --quiet; then echo "MUTATION DID NOT APPLY"; exit 3; fi
git diff | grep '^[+-]' | grep -v '^+++\|^---' | head -6
cd /verif
timeout 1800 ./check "$id" --tier "$tier" > /tmp/mutant.out 2>&1
rc=$?
grep -E "^(VIOLATION|OK|INCONCLUSIVE|KNOWN)" /tmp/mutant.out | head -5
grep -E "^\s+\S+_test.go:[0-9]+: (\[rapid\] failed|[A-Z0-9]+:)" /tmp/mutant.out | head -3 | cut -c1-400
echo "exit=$rc"
git -C /repo checkout -- .
cp /tmp/mutant.out /tmp/mutant.last.out; rm -rf /verif/replays/$id 2>/dev/null
