#!/bin/bash
# usage: tools/seeded_check.sh <id> <patch.diff> [tier] [check-id]
# Applies a seeded change to a scratch copy of /repo's working tree (under
# /tmp, removed afterwards), runs the check against that copy
# (VERIF_ALT_REPO: evidence and replays go to work/alt, not to the registered
# locations) and reports the outcome. /repo itself is not touched.
set -u
id=$1; patch=$(readlink -f "$2"); tier=${3:-quick}; cid=${4:-$id}
alt=/tmp/altrepo.$$
rm -rf $alt; mkdir -p $alt
rsync -a --exclude .git /repo/ $alt/
( cd $alt && git apply "$patch" ) || { echo "PATCH DOES NOT APPLY"; rm -rf $alt; exit 3; }
cd /verif
VERIF_ALT_REPO=$alt timeout 3600 ./check "$cid" --tier "$tier" > /tmp/seeded.$$.out 2>&1
rc=$?
grep -E "^(VIOLATION|OK|INCONCLUSIVE|KNOWN)" /tmp/seeded.$$.out | head -4
grep -E "^\s+\S+_test.go:[0-9]+: (\[rapid\] failed|[A-Z0-9]+:)" /tmp/seeded.$$.out | head -3 | cut -c1-500
echo "exit=$rc"
rm -rf $alt /tmp/seeded.$$.out /verif/work/alt/replays/$cid
