#!/bin/bash
# usage: tools/seeded_check.sh <id> <patch.diff> [tier] [check-id]
# Applies a seeded change to /repo's working tree, runs the check, restores the tree.
set -u
id=$1; patch=$2; tier=${3:-quick}; cid=${4:-$id}
cd /repo
if ! git diff --quiet; then echo "repo dirty"; exit 3; fi
git apply "$patch" || { echo "PATCH DOES NOT APPLY"; exit 3; }
cd /verif
timeout 3600 ./check "$cid" --tier "$tier" > /tmp/seeded.out 2>&1
rc=$?
grep -E "^(VIOLATION|OK|INCONCLUSIVE|KNOWN)" /tmp/seeded.out | head -4
grep -E "^\s+\S+_test.go:[0-9]+: (\[rapid\] failed|[A-Z0-9]+:)" /tmp/seeded.out | head -3 | cut -c1-500
echo "exit=$rc"
git -C /repo checkout -- .
rm -rf /verif/replays/$cid 2>/dev/null
