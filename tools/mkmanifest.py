#!/usr/bin/env python3
"""Regenerates /verif/MANIFEST.json from checks_config.py and the texts below.
Properties without an entry in CONFIG are listed under not_applicable with the
reason given in PENDING."""
import json, os, sys
ROOT = os.path.dirname(os.path.dirname(os.path.abspath(__file__)))
sys.path.insert(0, ROOT)
from checks_config import CONFIG
from manifest_texts import TEXTS, PENDING

props = [json.loads(l) for l in open(os.path.join(ROOT, "properties.jsonl"))]
checks, na = [], []
for p in props:
    pid = p["id"]
    if pid in CONFIG and pid in TEXTS:
        t = TEXTS[pid]
        checks.append({
            "property_id": pid,
            "quick_cmd": "./check %s --tier quick" % pid,
            "thorough_cmd": "./check %s --tier thorough" % pid,
            "evidence_file": "/verif/evidence/%s.json" % pid,
            "replay_cmd_template": "./check %s --replay {path}" % pid,
            "engine": "rapid-harness",
            "level_claimed": {"category": CONFIG[pid].get("level", "exploration"), "text": t["level"], "design_ref": "DESIGN.md section 6, " + pid},
            "level_note": t["note"],
            "technique": t["technique"],
        })
    else:
        na.append({"property_id": pid, "reason": PENDING.get(pid, "check not built yet in this session; planned design in DESIGN.md section 6")})
m = {
    "version": 1,
    "setup_cmd": "./setup.sh",
    "hooks": {
        "guard": "verif",
        "enable": "go test -tags verif (every check builds its harness package with this tag against /repo's working tree); no hook has been needed so far",
        "baseline_off_cmd": "cd /repo && go test -mod=mod -json -vet=off -count=1 -timeout 25m ./...",
        "source_commits": [],
        "add_only": True,
    },
    "engines": [{
        "name": "rapid-harness", "path": "/verif/harness",
        "serves_properties": [c["property_id"] for c in checks],
        "kind_free_text": "Go module importing ipfs-cluster from /repo (replace directive); pgregory.net/rapid v1.3.0 property functions and state machines, native go fuzz targets in the thorough tier; driver ./check shards legs over processes, merges evidence, maps exit codes",
    }],
    "checks": checks,
    "not_applicable": na,
    "notes": "Known findings and fixed defects: known_findings.json. Seeded mutants: seeded/. Design: DESIGN.md.",
}
json.dump(m, open(os.path.join(ROOT, "MANIFEST.json"), "w"), indent=1)
print("claimed:", [c["property_id"] for c in checks])
