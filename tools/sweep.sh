#!/bin/bash
# usage: tools/sweep.sh <tier> <seed>... ; runs every claimed check, prints one line each
tier=$1; shift
cd /verif
ids=$(python3 -c "
import json
print(' '.join(c['property_id'] for c in json.load(open('MANIFEST.json'))['checks']))")
for seed in "$@"; do
  for id in $ids; do
    start=$(date +%s)
    out=$(VERIF_SEED=$seed ./check $id --tier $tier 2>&1)
    rc=$?
    echo "seed=$seed $id rc=$rc $(( $(date +%s) - start ))s $(echo "$out" | grep -E '^(OK|VIOLATION|INCONCLUSIVE)' | head -2 | tr '\n' ' ')"
    if [ $rc -ne 0 ]; then echo "$out" | grep -v 'rapid\] draw' | grep -E '_test.go:[0-9]+: ' | head -3 | cut -c1-600; fi
  done
done
