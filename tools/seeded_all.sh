#!/bin/bash
# Runs every stored seeded change against the quick check of its property
# and writes /verif/seeded/RESULTS.md. /repo's working tree must be clean.
cd /verif
out=seeded/RESULTS.md
echo "| property | change | quick check | summary |" > $out.tmp
echo "|---|---|---|---|" >> $out.tmp
for d in seeded/C*/m*; do
  id=$(basename $(dirname $d)); k=$(basename $d)
  if ! git -C /repo diff --quiet; then echo "repo dirty"; exit 3; fi
  git -C /repo apply /verif/$d/patch.diff || { echo "| $id | $k | PATCH DOES NOT APPLY | |" >> $out.tmp; continue; }
  timeout 3600 ./check $id > /tmp/seeded_all.out 2>&1; rc=$?
  git -C /repo checkout -- .
  rm -rf replays/$id
  case $rc in 1) r="caught (VIOLATION)";; 0) r="MISSED";; *) r="inconclusive (exit $rc)";; esac
  s=$(python3 -c "import json;print(json.load(open('$d/meta.json'))['summary'].replace('|','/')[:160])")
  echo "| $id | $k | $r | $s |" >> $out.tmp
  echo "$id $k $r"
done
mv $out.tmp $out
