#!/bin/bash
# Runs every stored seeded change against the quick check of its property
# (on a scratch copy of /repo: tools/seeded_check.sh) and writes
# /verif/seeded/RESULTS.md. usage: tools/seeded_all.sh [parallel streams]
cd /verif
n=${1:-3}
out=seeded/RESULTS.md
tmp=$(mktemp -d /tmp/seeded_all.XXXX)
ls -d seeded/C*/m* | sort > $tmp/list
split -n l/$n -d $tmp/list $tmp/part.
for part in $tmp/part.*; do
  ( while read d; do
      id=$(basename $(dirname $d)); k=$(basename $d)
      # a change that an unguarded repair has since made harmless (meta.json:
      # neutralised_by; its own demonstration passes with the patch) is listed, not run
      neu=$(python3 -c "import json;print(json.load(open('$d/meta.json')).get('neutralised_by','')[:60])")
      if [ -n "$neu" ]; then
        s=$(python3 -c "import json;print(json.load(open('$d/meta.json'))['summary'].replace('|','/').replace('\n',' ')[:170])")
        echo "| $id | $k | no longer breaks the property: neutralised by $neu... | $s |" >> $part.out
        echo "$id $k neutralised"
        continue
      fi
      r=$(tools/seeded_check.sh $id $d/patch.diff 2>&1 | grep -E "^exit=" | tail -1)
      case "$r" in exit=1) v="caught (VIOLATION)";; exit=0) v="MISSED";; *) v="inconclusive ($r)";; esac
      # a change that belongs to a sibling property (meta.json: sibling_check)
      sib=$(python3 -c "import json;print(json.load(open('$d/meta.json')).get('sibling_check',''))")
      if [ "$v" = "MISSED" ] && [ -n "$sib" ]; then
        r2=$(tools/seeded_check.sh $id $d/patch.diff quick $sib 2>&1 | grep -E "^exit=" | tail -1)
        case "$r2" in exit=1) v="missed by $id, caught by $sib (VIOLATION)";; exit=0) v="MISSED (also by $sib)";; *) v="missed by $id; $sib inconclusive ($r2)";; esac
      fi
      s=$(python3 -c "import json;print(json.load(open('$d/meta.json'))['summary'].replace('|','/').replace('\n',' ')[:170])")
      echo "| $id | $k | $v | $s |" >> $part.out
      echo "$id $k $v"
    done < $part ) &
done
wait
{ echo "| property | change | quick check of that property | summary |"; echo "|---|---|---|---|"; cat $tmp/part.*.out | sort; } > $out
rm -rf $tmp
