#!/bin/sh
# Builds the harness from files on disk only (offline) and warms the go build
# cache so that every check's rebuild is a relink.
set -e
cd "$(dirname "$0")/harness"
export GOFLAGS=-mod=mod GOPROXY=off GOSUMDB=off GOTOOLCHAIN=local
sort -u /repo/go.sum go.sum -o go.sum 2>/dev/null || cp /repo/go.sum go.sum
mkdir -p ../work/bin
python3 - <<'PY'
import subprocess, sys, os
sys.path.insert(0, "..")
from checks_config import CONFIG
for pid, cfg in sorted(CONFIG.items()):
    cmd = ["go", "test", "-c", "-tags", "verif", "-vet=off", "-o", "../work/bin/%s.test" % pid]
    if cfg.get("race"):
        cmd.append("-race")
    cmd.append("./%s/" % cfg["pkg"])
    print(" ".join(cmd), flush=True)
    r = subprocess.run(cmd)
    if r.returncode != 0:
        sys.exit(r.returncode)
PY
echo setup done
