# Per-property run plan for ./check. legs: run = -test.run regex, quick/thorough
# = (rapid.checks per shard, shards). floors: class counters that must be
# reached for the run to count (vacuity guard).

QUIC = "QUIC transport is stubbed out in the harness build (quic-go v0.21.1 does not build with the sandbox toolchain); no property exercises it"

CONFIG = {
    "C01": {
        "pkg": "c01",
        "max_procs": 12,
        "regress": "^TestRegress",
        "regress_timeout": 300,
        "legs": [
            {"run": "^TestRaftLog$", "quick": (5, 12), "thorough": (120, 12), "timeout": {"quick": 900, "thorough": 7200}},
        ],
        "floors": {"raft-log": {"nontrivial": 10, "installed-on-non-empty": 3, "restart": 10, "follower-submitted": 10}},
        "assumptions": [
            QUIC,
            "real hashicorp raft with BoltDB and file snapshots in temp dirs, go-libp2p-raft transport over loopback hosts; heartbeat/election 200 ms",
            "operations are issued one at a time, so the acknowledged sequence is the committed sequence; an operation that returns an error ends the case as inconclusive (counted), it is never judged",
            "crash points are clean shutdowns and stops of a peer while the others commit and snapshot; torn writes inside BoltDB are the store's contract",
            "tracker hand-off is compared as content, per operation applied since the peer's last start, not as order",
        ],
    },
    "C02": {
        "pkg": "c02",
        "max_procs": 12,
        "regress": "^TestRegress",
        "regress_timeout": 300,
        "legs": [
            {"run": "^TestBatching$", "quick": (10, 8), "thorough": (300, 12)},
            {"run": "^TestConvergence$", "quick": (6, 8), "thorough": (150, 12)},
        ],
        "floors": {"batching": {"nontrivial": 30, "fault": 10}, "convergence": {"nontrivial": 8}},
        "assumptions": [
            QUIC,
            "replicas run real go-ds-crdt, ipfs-lite and signed gossipsub over loopback TCP hosts with a no-op content router",
            "commit failures are injected by failing go-ds-crdt's block writes in a datastore wrapper",
            "batching: the visible state must be the committed state plus a prefix of the accepted operations; the size trigger's exact batch boundaries are only asserted while no commit has failed in the case",
            "queue overflow is scheduler dependent: ErrMaxQueueSizeReached is accepted whenever batching is on, and a refused operation must have no effect",
            "delivery order is owned at partition granularity (connection gater), not per pubsub message",
            "tracker hand-off under concurrency is checked in the weak form (every pin in the final pinset was tracked with its final content)",
        ],
    },
    "C03": {
        "pkg": "c03",
        "legs": [
            {"run": "^TestAllocations$", "quick": (6000, 8), "thorough": (150000, 16)},
        ],
        "floors": {"allocations": {"nontrivial": 2000, "failed": 200, "entry:peerremove": 500, "entry:blockallocate": 500}},
        "assumptions": [
            QUIC,
            "healthy = member of the peerset with a valid, unexpired metric under the informer's name (what the monitor reports); a healthy peer whose value is not numeric can be kept as current holder but cannot be ranked",
            "metrics expire 1 h in the past or in the future, never near now",
            "consensus is a harness fake over a real dsstate; the monitor is the real pubsubmon fed through LogMetric",
        ],
    },
    "C04": {
        "pkg": "c04",
        "regress": "^TestRegress",
        "legs": [
            {"run": "^TestPinset$", "quick": (600, 16), "thorough": (20000, 16)},
        ],
        "floors": {"pinset": {"nontrivial": 1000, "repin-identical": 500, "unpin-meta": 200, "update-of-stored": 500, "follower": 500}},
        "assumptions": [
            QUIC,
            "all 5 members are healthy in every case (allocation under unhealthy peers is C03's subject)",
            "unix-0 expiry and metadata entries with an empty key are not generated (documented as 'unset' / ignored by the tree)",
            "the update source (pin-update) is not treated as an option whose removal must be stored: PinOptions.Equals documents that it is deliberately ignored",
            "'identical options' is only asserted with whole-second expiry (the stored form truncates)",
            "unpinning a shard or cluster-DAG entry directly, and unpinning a meta entry whose cluster DAG is missing, are not specified by the statement: refusal-without-change is required for the former, the latter is not judged",
        ],
    },
    "C09": {
        "pkg": "c09",
        "regress": "^TestRegress",
        "legs": [
            {"run": "^TestStoreChecker$", "quick": (4000, 8), "thorough": (100000, 12)},
            {"run": "^TestMonitorLatest$", "quick": (4000, 2), "thorough": (100000, 2)},
            {"run": "^TestCadence$", "quick": (3, 4), "thorough": (40, 8)},
        ],
        "floors": {"store-checker": {"nontrivial": 1000, "alerted": 2000, "forgotten": 1000, "window-wrap": 500}, "cadence": {"nontrivial": 8}},
        "assumptions": [
            QUIC,
            "expiry instants are 1 h in the past or future, never near now",
            "with 6 or more samples in a window the accrual (phi) detector decides, which depends on arrival times: for those pairs only 'never alerted while unexpired' and 'at most one alert per check' are asserted",
            "Store.RemovePeer (no production caller) is only exercised on pairs without alert history",
            "cadence: at most one publish error in a row is injected, and none for the ping (its TTL of 2 intervals tolerates no lost publication by design); an apparent violation must reproduce 3 times in a row",
        ],
    },
    "C10": {
        "pkg": "c10",
        "regress": "^TestRegress",
        "legs": [
            {"run": "^TestRehome$", "quick": (500, 16), "thorough": (20000, 16), "timeout_is_violation": False},
        ],
        "floors": {"rehome": {"nontrivial": 500, "under-replicated": 1000, "expired-pin": 300, "mode:remove": 500}},
        "assumptions": [
            QUIC,
            "every survivor evaluates the alert from the same initial pinset (the harness restores it between instances): this is the statement's 'members agree' proviso",
            "'exactly one' is asserted only when no instance is a follower or has re-pinning disabled; otherwise 'at most one, and never a follower/disabled instance'",
            "stored pins have at most max allocations (well-formed pinset)",
            "metrics and the peerset come from harness fakes behind the PeerMonitor and Consensus interfaces",
        ],
    },
    "C05": {
        "pkg": "c05",
        "regress": "^TestRegress",
        "legs": [
            {"run": "^TestConverge$", "quick": (120, 16), "thorough": (4000, 16)},
        ],
        "floors": {"converge": {"nontrivial": 600, "cancel-in-flight": 200, "ipfs-error": 300, "full-queue": 50, "direct": 300}},
        "assumptions": [
            "model IPFS daemon: a call whose operation context was cancelled before it is released never commits (well-behaved daemon); recursive over direct upgrades, direct over recursive is refused, unpin of an absent CID succeeds",
            "only Pin/Unpin calls park on the gate; pin ls calls answer immediately",
            "a recursive pin is never re-tracked as direct without an untrack in between (Cluster.Pin refuses that)",
            "a remote pin whose local best-effort unpin received an injected IPFS error may stay pinned (tolerated by the statement)",
        ],
    },
    "C06": {
        "pkg": "c06",
        "legs": [
            {"run": "^TestLocalViews$", "quick": (1500, 8), "thorough": (60000, 16)},
        ],
        "floors": {"local-views": {"nontrivial": 3000}},
        "assumptions": [
            "views are compared at status-class level: the tree names 'in the pinset but not in IPFS' pin_error in Status() and unexpectedly_unpinned in StatusAll(); both are error statuses",
            "daemon entries whose mode differs from the recorded mode are generated but only the cross-view and filter laws are judged on them (IPFS has no status for 'direct held, recursive wanted')",
            "a CID absent from the listing counts as unpinned",
        ],
    },
    "C11": {
        "pkg": "c11",
        "regress": "^TestRegress",
        "legs": [
            {"run": "^TestRaw$", "quick": (1500, 8), "thorough": (60000, 16)},
            {"run": "^TestClient$", "quick": (500, 8), "thorough": (20000, 16)},
        ],
        "floors": {"raw-requests": {"nontrivial": 1500, "unauthorized": 1500, "malformed": 2000, "valid": 2500}, "client-library": {"nontrivial": 1500}},
        "assumptions": [
            QUIC,
            "router canonicalisation redirects (3xx) are accepted when no cluster operation happened",
            "user-allocations and mode values that the server documents as leniently parsed (unknown peers dropped, unknown mode = recursive) are not generated as 'invalid'",
            "status filters are sent either fully valid or fully invalid (unknown names inside an otherwise valid filter are documented as ignored)",
            "metric names come from the shipped set (ping, freespace, numpin)",
            "POST /add is exercised by C12/C13; here only its method/auth handling is covered",
        ],
    },
    "C12": {
        "pkg": "c12",
        "regress": "^TestRegress",
        "legs": [
            {"run": "^TestHijacked$", "quick": (400, 8), "thorough": (15000, 16)},
            {"run": "^TestRelayed$", "quick": (800, 4), "thorough": (30000, 8)},
        ],
        "floors": {"hijacked": {"nontrivial": 1500, "route:add": 300, "route:pin/update": 150, "error-answer": 500}, "relayed": {"nontrivial": 200}},
        "assumptions": [
            "the proxy's own OPTIONS (CORS) and header-extraction (POST /api/v0/version) requests to the daemon are not 'the call being replaced'",
            "paths with more than one segment after a hijacked route (/api/v0/pin/add/x/y) are not hijacked by the route table and must be relayed unchanged",
            "sha2-512 with CID version 0 is an invalid add request",
            "cluster, consensus and connector are recording RPC fakes behind the proxy; with a nil host every member's RepoStat is answered locally",
        ],
    },
    "C13": {
        "pkg": "c13",
        "regress": "^TestRegress",
        "legs": [
            {"run": "^TestAdd$", "quick": (150, 16), "thorough": (5000, 16)},
            {"run": "^TestAddThroughREST$", "quick": (300, 2), "thorough": (8000, 4)},
        ],
        "floors": {"add": {"nontrivial": 600, "multi-shard": 100, "failed": 100, "fault-survived": 50}, "add-through-rest": {"has-hidden-entry": 80}},
        "assumptions": [
            QUIC,
            "several top-level entries imply wrap (ipfs-cluster-ctl forces it)",
            "reference importer = go-unixfs chunker + balanced/trickle layout + io.Directory built by the harness (no MFS, no cluster code)",
            "the importer also emits nodes that are not part of the final DAG (intermediate directory states): they may be delivered and covered by shards; only blocks reachable from the root must be covered exactly once",
            "a shard size not larger than the largest block is a legal refusal ('block doesn't fit in empty shard')",
            "the class with more than 5984 links in one shard runs at low frequency in the quick tier",
        ],
    },
    "C14": {
        "pkg": "c14",
        "regress": "^TestRegress",
        "legs": [
            {"run": "^TestMarshal$", "quick": (3000, 2), "thorough": (80000, 4)},
            {"run": "^TestExportImportRaft$", "quick": (150, 3), "thorough": (4000, 4)},
            {"run": "^TestExportImportCrdt$", "quick": (8, 4), "thorough": (400, 6)},
            {"run": "^TestSnapshotOffline$", "quick": (300, 2), "thorough": (8000, 4)},
            {"run": "^TestBackups$", "quick": (300, 3), "thorough": (8000, 4)},
            {"run": "^TestPeerstoreRoundTrip$", "quick": (2000, 1), "thorough": (50000, 2)},
            {"run": "^TestPeerstoreFile$", "quick": (3000, 1), "thorough": (80000, 2)},
        ],
        "floors": {"backups": {"nontrivial": 100}, "peerstore-file": {"nontrivial": 500}, "export-import-raft": {"nontrivial": 100}},
        "assumptions": [
            QUIC,
            "the JSON export stream is one encoding/json api.Pin per line, which is what exportState writes",
            "pre-existing backup folders with gaps get only the weak law (newest backup = cleaned data, at most one backup lost): the statement does not define gaps",
            "peerstore lines are at most 10 KB (bufio.Scanner's 64 KB token limit is not exercised)",
            "/dnsaddr addresses (which need DNS resolution) are not generated",
        ],
    },
    "C15": {
        "pkg": "c15",
        "legs": [
            {"run": "^TestSections$", "quick": (8000, 6), "thorough": (200000, 12)},
            {"run": "^TestEnv$", "quick": (6000, 1), "thorough": (100000, 2)},
            {"run": "^TestManager$", "quick": (1500, 4), "thorough": (40000, 8)},
            {"run": "^TestIdentity$", "quick": (300, 1), "thorough": (3000, 1)},
        ],
        "floors": {"sections": {"accepted": 8000, "rejected": 4000, "nontrivial": 10000}, "manager": {"accepted": 1000}},
        "assumptions": [
            QUIC,
            "the field specification (harness/c15/spec_test.go) is hand-written from the JSON forms; a setting missing from both the code's JSON form and the specification is invisible",
            "a numeric/duration zero, an empty string or an empty list may be replaced by the default: nothing is asserted for them beyond load => validate and the save/load fixpoint",
            "a setting that ToJSON omits (omitempty when equal to the default) is not judged for that case",
            "malformed values (wrong JSON type, unparsable) that the loader ignores are not counted as violations; accepted configurations must still validate and round-trip",
        ],
    },
    "C16": {
        "pkg": "c16",
        "regress": "^TestRegress",
        "legs": [
            {"run": "^TestConnector$", "quick": (400, 16), "thorough": (15000, 16)},
        ],
        "floors": {"connector": {"nontrivial": 2000, "already-pinned": 100, "used-update": 50, "stall": 30, "unpin-absent": 100, "slow-progress": 50}},
        "assumptions": [
            "the fake daemon follows go-ipfs: pin ls with a type filter answers 'not pinned' for a pin of another type, direct over recursive is refused, pin rm of an absent or indirect pin answers the pinner's 'not pinned' message, errors after the response started arrive in the X-Stream-Error trailer",
            "pin timeout 150 ms; a stalled pin must fail within 10 s; slow but steady progress (every 50 ms for 300 ms) must succeed",
        ],
    },
    "C07": {
        "pkg": "c07",
        "max_procs": 12,
        "legs": [
            {"run": "^TestRPCPolicy$", "quick": (10, 8), "thorough": (300, 12)},
            {"run": "^TestPubsubTrust$", "quick": (6, 4), "thorough": (100, 8)},
        ],
        "floors": {"rpc-policy": {"allowed-trusted-calls": 500, "refused-calls": 3000, "nontrivial": 10, "mode:raft": 3}, "pubsub-trust": {"nontrivial": 5}},
        "level": "exploration",
        "assumptions": [
            QUIC,
            "gorpc decides authorisation before decoding the argument: calls carry an undecodable argument so that an authorised call ends in a decoding error without running the handler; the observable is the error class",
            "only permissions wider than the frozen table are violations; an endpoint made more restrictive is not reported",
            "pubsub leg: the liveness witness T does not trust A, so A's updates cannot reach B re-signed inside T's DAG",
        ],
    },
    "C17": {
        "pkg": "c17",
        "max_procs": 10,
        "legs": [
            {"run": "^TestMembership$", "quick": (4, 10), "thorough": (60, 12), "timeout": {"quick": 900, "thorough": 7200}},
        ],
        "floors": {"membership": {"nontrivial": 8, "evaluations": 25}},
        "assumptions": [
            QUIC,
            "full Cluster instances with real Raft consensus (BoltDB, file snapshots) and a real dual DHT on loopback hosts; tracker, monitor, informer and IPFS connector are harness fakes; every member is healthy for the allocator",
            "membership changes are issued one at a time; one that returns an error ends the case as inconclusive (counted)",
            "agreement is observed by bounded polling (60 s) of Consensus.Peers and the pinset on every running member",
            "no partitions; Raft's own schedules are explored by repetition only",
        ],
    },
    "C18": {
        "pkg": "c18",
        "race": True,
        "max_procs": 8,
        "legs": [
            {"run": "^TestTrackerMix$", "quick": (40, 2), "thorough": (600, 4)},
            {"run": "^TestOpTrackerMix$", "quick": (300, 2), "thorough": (6000, 4)},
            {"run": "^TestMetricsMix$", "quick": (300, 2), "thorough": (6000, 4)},
            {"run": "^TestWindowMix$", "quick": (400, 2), "thorough": (8000, 4)},
            {"run": "^TestAlertsMix$", "quick": (12, 2), "thorough": (150, 4)},
            {"run": "^TestShutdownMix$", "quick": (60, 2), "thorough": (1500, 4)},
        ],
        "floors": {
            "tracker-mix": {"nontrivial": 20},
            "optracker-mix": {"nontrivial": 100},
            "metrics-mix": {"nontrivial": 100},
            "window-mix": {"nontrivial": 100},
            "alerts-mix": {"nontrivial": 6},
            "shutdown-mix": {"nontrivial": 20, "component:disk": 3, "component:numpin": 3, "component:crdt": 3, "component:cluster": 3, "component:cluster-boot": 3, "component:tracker": 3},
        },
        "assumptions": [
            QUIC,
            "test binary built with -race; a race report, a panic in any goroutine, or workers not finishing within a 60 s watchdog is a violation",
            "schedules are explored by repetition under the Go scheduler with drawn GOMAXPROCS and yields, not enumerated; a race the scheduler never exercises is not seen",
            "the Cluster is wired to harness fakes (consensus, monitor, informer, IPFS connector) so only cluster.go's own synchronisation is exercised there; the tracker, operation tracker, metrics store/window/checker, informers and CRDT consensus are the real ones",
        ],
    },
    "C08": {
        "pkg": "c08",
        "regress": "^TestRegress",
        "legs": [
            {"run": "^TestPinProto$", "quick": (20000, 2), "thorough": (150000, 4)},
            {"run": "^TestPinState$", "quick": (3000, 1), "thorough": (60000, 2)},
            {"run": "^TestPinMsgpack$", "quick": (20000, 2), "thorough": (150000, 4)},
            {"run": "^TestLogOpMsgpack$", "quick": (4000, 1), "thorough": (100000, 2)},
            {"run": "^TestPinJSON$", "quick": (20000, 2), "thorough": (150000, 4)},
            {"run": "^TestOptsQuery$", "quick": (20000, 1), "thorough": (150000, 4)},
            {"run": "^TestAddParamsQuery$", "quick": (4000, 1), "thorough": (100000, 2)},
            {"run": "^TestRecords$", "quick": (1500, 1), "thorough": (30000, 4)},
            {"run": "^TestEnums$", "quick": (5000, 1), "thorough": (50000, 1)},
            {"run": "^TestEqualsAgrees$", "quick": (8000, 1), "thorough": (200000, 4)},
            {"run": "^TestDecodeProto$", "quick": (10000, 1), "thorough": (300000, 4)},
            {"run": "^TestDecodeMsgpack$", "quick": (20000, 2), "thorough": (200000, 8)},
            {"run": "^TestDecodeJSON$", "quick": (20000, 2), "thorough": (200000, 8)},
            {"run": "^TestDecodeQuery$", "quick": (20000, 1), "thorough": (200000, 4)},
            {"run": "^TestDecodeState$", "quick": (3000, 1), "thorough": (100000, 4)},
            {"run": "^TestDecodeStrings$", "quick": (5000, 1), "thorough": (100000, 2)},
        ],
        "fuzz": [
            {"name": "FuzzProtoUnmarshal", "thorough": 120, "workers": 8},
            {"name": "FuzzMsgpackPin", "thorough": 120, "workers": 8},
            {"name": "FuzzJSONPin", "thorough": 120, "workers": 8},
            {"name": "FuzzFromQuery", "thorough": 120, "workers": 8},
        ],
        "floors": {
            "pin-msgpack": {"has-origins": 200, "nontrivial": 1000},
            "pin-json": {"has-origins": 200},
            "pin-proto": {"subsecond-expiry": 100, "type:shard-pin": 100},
            "decode-msgpack": {"nontrivial": 500},
            "decode-json": {"nontrivial": 500},
        },
        "assumptions": [
            "well-formed pin = what checkPinType/setupPin accept and the adder builds (DESIGN section 3)",
            "lossy fields forgiven: user allocations, sub-second expiry and mode in the stored protobuf form; metadata entries with an empty key in the query form",
            "msgpack handle is a zero codec.MsgpackHandle, as created by go-libp2p-gorpc, go-libp2p-raft and dsstate.DefaultHandle",
        ],
    },
}
